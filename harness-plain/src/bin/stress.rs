//! stress: free-running writer and readers on the UNHOOKED clock-bound-shm (no controller, real concurrency, real
//! mmap of one file by several ShmReader instances and one ShmWriter). Observational oracle only:
//! every snapshot is one published record (C02), a reader never goes back (C03), and once the writer has stopped
//! every reader's next snapshot is the last publication (C03).
//! Then a sleeping reader: it sleeps through k publications (k up to 70000, around the quarter, half and full
//! generation range) and must catch up (C03).
//!   stress --secs 2 --readers 3
use clock_bound_shm::{ClockErrorBound, ClockStatus, ShmReader, ShmWrite, ShmWriter};
use std::sync::atomic::{AtomicBool, AtomicU64, Ordering};
use std::sync::Arc;
use std::time::{Duration, Instant};

fn status_of(k: u64) -> ClockStatus {
    if k == 0 { ClockStatus::Unknown } else if k % 2 == 1 { ClockStatus::Synchronized } else { ClockStatus::FreeRunning }
}
fn rec(k: u64) -> ClockErrorBound {
    let ts = libc::timespec { tv_sec: k as i64, tv_nsec: k as i64 };
    ClockErrorBound::new(ts, ts, k as i64, k as u32, k as u32, status_of(k))
}
fn words_of(c: &ClockErrorBound) -> [u64; 7] {
    let mut w: [u64; 7] = unsafe { std::mem::transmute_copy(c) };
    w[6] &= 0xffff_ffff;
    w
}
fn rec_words(k: u64) -> [u64; 7] {
    [k, k, k, k, k, (k & 0xffff_ffff) | ((k & 0xffff_ffff) << 32), status_of(k) as u64]
}

fn main() {
    let args: Vec<String> = std::env::args().collect();
    let get = |n: &str, d: f64| args.iter().position(|a| a == n).and_then(|i| args.get(i + 1)).and_then(|s| s.parse().ok()).unwrap_or(d);
    let secs = get("--secs", 2.0);
    let nreaders = get("--readers", 3.0) as usize;
    let dir = format!("/dev/shm/cbplain_{}", std::process::id());
    let _ = std::fs::remove_dir_all(&dir);
    std::fs::create_dir_all(&dir).unwrap();
    let path = std::path::PathBuf::from(format!("{dir}/shm"));
    let mut w = ShmWriter::new(&path).expect("new");
    w.write(&rec(1));
    let stop = Arc::new(AtomicBool::new(false));
    let published = Arc::new(AtomicU64::new(1));
    let mut hs = vec![];
    for r in 0..nreaders {
        let (stop, published, path) = (stop.clone(), published.clone(), path.clone());
        hs.push(std::thread::spawn(move || {
            let c = std::ffi::CString::new(path.to_string_lossy().as_bytes()).unwrap();
            let mut rd = ShmReader::new(&c).expect("reader");
            let (mut n, mut last, mut bad) = (0u64, 0u64, Vec::<String>::new());
            let mut check = |rd: &mut ShmReader, last: &mut u64, bad: &mut Vec<String>, final_k: Option<u64>| {
                match rd.snapshot() {
                    Ok(c) => {
                        let wds = words_of(c);
                        let k = wds[0];
                        if wds != rec_words(k) {
                            if bad.len() < 3 { bad.push(format!("C02 torn: reader {r} got {wds:?}")); }
                        } else {
                            if k < *last && bad.len() < 3 { bad.push(format!("C03 went back: reader {r} got {k} after {last}")); }
                            if let Some(f) = final_k {
                                if k != f && bad.len() < 3 { bad.push(format!("C03 stale when idle: reader {r} got {k}, last publication {f}")); }
                            }
                            *last = k;
                        }
                    }
                    Err(e) => { if bad.len() < 3 { bad.push(format!("C18 error from snapshot with a live writer: reader {r}: {e:?}")); } }
                }
            };
            while !stop.load(Ordering::Acquire) {
                check(&mut rd, &mut last, &mut bad, None);
                n += 1;
                if n % 1024 == 0 && r % 2 == 1 { std::thread::sleep(Duration::from_micros(50)); } // a slower reader
            }
            std::thread::sleep(Duration::from_millis(20));
            let f = published.load(Ordering::Acquire);
            check(&mut rd, &mut last, &mut bad, Some(f));
            (n, bad)
        }));
    }
    let t0 = Instant::now();
    let mut k = 1u64;
    while t0.elapsed().as_secs_f64() < secs {
        for _ in 0..256 {
            k += 1;
            w.write(&rec(k));
        }
        published.store(k, Ordering::Release);
        // bursts of back-to-back updates, then a pause: the 16-bit generation then wraps about once per second, so
        // a reader would have to be stalled inside one call for a second to meet the known in-call-wrap corner
        std::thread::sleep(Duration::from_millis(8));
    }
    published.store(k, Ordering::Release);
    stop.store(true, Ordering::Release);
    let mut snaps = 0u64;
    let mut bad = vec![];
    for h in hs {
        let (n, b) = h.join().unwrap();
        snaps += n;
        bad.extend(b);
    }
    // sleeping reader: one snapshot, then k publications without a call, then a call with the writer idle. It must
    // return the last publication unless k is a positive multiple of 32767 (the documented coincidence).
    let c = std::ffi::CString::new(path.to_string_lossy().as_bytes()).unwrap();
    let mut rd = ShmReader::new(&c).expect("reader");
    let mut sweeps = 0u64;
    for &gap in [1u64, 2, 3, 100, 8191, 8192, 16383, 16384, 16385, 20000, 30000, 32765, 32766, 32768, 32769, 40000, 49151, 50000, 65533, 65535, 65536, 70000].iter() {
        let _ = rd.snapshot();
        for _ in 0..gap {
            k += 1;
            w.write(&rec(k));
        }
        sweeps += 1;
        match rd.snapshot() {
            Ok(c) => {
                let wds = words_of(c);
                if wds != rec_words(wds[0]) {
                    bad.push(format!("C02 torn: sleeping reader got {wds:?}"));
                } else if wds[0] != k && gap % 32767 != 0 {
                    bad.push(format!("C03 stale when idle: a reader that slept through {gap} publications got {}, last publication {k}", wds[0]));
                }
            }
            Err(e) => bad.push(format!("C18 error from snapshot with an idle writer: {e:?}")),
        }
    }
    drop(w);
    let _ = std::fs::remove_dir_all(&dir);
    println!("{}", serde_json::json!({"publications": k, "snapshots": snaps, "readers": nreaders, "secs": secs, "sleep_sweeps": sweeps, "violations": bad}));
}
