------------------------------ MODULE MC_big ------------------------------
(* Cross-check of Big against TLC's native arithmetic. *)
EXTENDS Big, TLC
Xs == (0..40) \cup {998, 999, 1000, 1001, 1999, 2000, 123456, 999999, 1000000, 1000001, 46340}
Ys == (0..12) \cup {999, 1000, 1001, 2047}
ASSUME \A x \in Xs : \A y \in Ys :
   /\ ToNat(Add(FromNat(x), FromNat(y))) = x + y
   /\ ToNat(Mul(FromNat(x), FromNat(y))) = x * y
   /\ (x >= y => ToNat(Sub(FromNat(x), FromNat(y))) = x - y)
   /\ (Less(FromNat(x), FromNat(y)) <=> x < y)
   /\ (Leq(FromNat(x), FromNat(y)) <=> x <= y)
   /\ ToNat(Half2(FromNat(x))) = x \div 2
   /\ ToNat(DropLimbs(FromNat(x), 1)) = x \div 1000
   /\ ToNat(LowLimbs(FromNat(x), 1)) = x % 1000
SV(i) == IF i < 0 THEN S(TRUE, FromNat(-i)) ELSE S(FALSE, FromNat(i))
SI(x) == IF x.neg THEN -ToNat(x.mag) ELSE ToNat(x.mag)
Zs == (-15..15) \cup {-1000, -999, 999, 1000, -123456, 123456}
ASSUME \A x \in Zs : \A y \in Zs :
   /\ SI(SAdd(SV(x), SV(y))) = x + y
   /\ SI(SSub(SV(x), SV(y))) = x - y
   /\ (SLess(SV(x), SV(y)) <=> x < y)
   /\ (SLeq(SV(x), SV(y)) <=> x <= y)
\* growth of 3 h 12 min 12.345678901 s at 999 999 999 ppb = 11 532 345 667 368 ns (hand-computed)
ASSUME DropLimbs(Mul(FromTs(FromNat(11532), FromNat(345678901)), FromNat(999999999)), 3) = <<368, 667, 345, 532, 11>>
VARIABLE x
Init == x = 0
Next == UNCHANGED x
=============================================================================
