----------------------------- MODULE SegRefines -----------------------------
(***************************************************************************)
(* ShmSeg (sequentially consistent, warm starts, generations far from the  *)
(* wrap) refines SeqInd: every step of ShmSeg is a step of SeqInd or a     *)
(* stuttering step under the mapping below, and every reachable state of   *)
(* ShmSeg satisfies SeqInd's inductive invariant. This ties the unbounded  *)
(* argument (Apalache on SeqInd) to the specification that is bound to the *)
(* code by replay and trace validation.                                    *)
(***************************************************************************)
EXTENDS MC_seg

\* usable start files far from the wrap: clean, right after the first publication, a first publication that died
\* after its odd store, a later one that died in the middle of the copy
SFmid == File(TRUE, 72, TRUE, 72, 1, 5, Mixed(2, 1), 1, 2)
SFref == { SFvalid, SFgen2, SFfirstpub, SFmid }

WpcMap ==
  CASE wpc = "idle" -> "idle"
    [] wpc = "odd" -> "ld"                      \* generation loaded, odd value not stored yet
    [] wpc \in {"wfence", "w1"} -> "odd"
    [] wpc = "w2" -> "h1"
    [] wpc = "even" -> "h2"
    [] OTHER -> "dead"                          \* dead, or inside ShmWriter::new (probe, mmap, version store)
RpcMap(r) ==
  CASE rpc[r] = "rd" /\ wi[r] = 1 -> "g1"
    [] rpc[r] = "rd" /\ wi[r] = 2 -> "d1"
    [] rpc[r] \in {"rfence", "g2"} -> "d2"
    [] OTHER -> "idle"                          \* not in a call, before the first generation load, or returned

S == INSTANCE SeqInd WITH
       gen <- Top("gen"), w1 <- Top(WL(1)), w2 <- Top(WL(2)),
       wpc <- WpcMap, cur <- wk, done <- pubDone,
       rpc <- [r \in Readers |-> RpcMap(r)], rg1 <- g1,
       rv1 <- [r \in Readers |-> snap[r][1]], rv2 <- [r \in Readers |-> snap[r][2]],
       cgen <- cacheGen, cpub <- [r \in Readers |-> cacheRec[r][1]]

RefInv == S!IndInv
RefStep == [][S!Next]_(S!vars)
\* the cold path (wipe) is outside SeqInd: with usable start files it is never entered (ShmSeg.InPlace)
NeverCold == wpc \notin (WipePcs \cup {"create"})
=============================================================================
