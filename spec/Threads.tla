------------------------------ MODULE Threads ------------------------------
(***************************************************************************)
(* C15: the daemon's thread manager.                                       *)
(*   main   : clock-bound-d/src/thread_manager.rs run / broadcast_abort    *)
(*   poller : clock-bound-d/src/chrony_poller.rs run_clock_error_bound_poller *)
(*   writer : clock-bound-d/src/shm_writer.rs run / process_messages       *)
(*   Context::drop reports ThreadPanic / ThreadTerminate to main.          *)
(*                                                                         *)
(* Three mailboxes (mpsc, FIFO).  A send to a mailbox whose receiver has   *)
(* been dropped fails; broadcast_abort ignores such failures and its order *)
(* over the two workers is arbitrary (HashMap iteration).  Either worker   *)
(* may fail (panic or plain return) at every point of its loop, including  *)
(* start-up, and both may fail.                                            *)
(***************************************************************************)
EXTENDS Naturals, Sequences, FiniteSets, TLC

CONSTANTS MaxFail,       \* injected failures per run
          MaxData,       \* bound on undelivered data messages (the poller is paced by its 1 s sleep)
          BroadcastPolicy,   \* "all" (code: failed sends are ignored) | "stop_on_error" (regression of the model)
          BrokenChannel      \* "panic" (code: the poller dies when the writer's mailbox is gone) | "continue" (regression)

VARIABLES mb,            \* mailbox contents: [M, P, W -> Seq]
          rx,            \* receiver still alive
          ppc, wpc, mpc, \* program counters
          why,           \* how a worker ended: "none" | "panic" | "return"
          fails,
          bc,            \* workers still to be sent ThreadAbort by the current broadcast
          joined

vars == <<mb, rx, ppc, wpc, mpc, why, fails, bc, joined>>
Workers == {"P", "W"}
Pc(t) == IF t = "P" THEN ppc ELSE wpc

Init == /\ mb = [t \in {"M", "P", "W"} |-> <<>>] /\ rx = [t \in {"M", "P", "W"} |-> TRUE]
        /\ ppc = "start" /\ wpc = "start" /\ mpc = "recv" /\ why = [t \in Workers |-> "none"]
        /\ fails = 0 /\ bc = {} /\ joined = {}

\* ---- poller: start -> top -> mono -> query -> send -> wait -> top ...
PStep(from, to) == ppc = from /\ ppc' = to /\ UNCHANGED <<mb, rx, wpc, mpc, why, fails, bc, joined>>
PStart == PStep("start", "top")
PTop == PStep("top", "query")            \* clock_gettime(MONOTONIC)
PQuery == PStep("query", "send")         \* get_tracking(): answers, fails at once, or times out (up to 3 x 1 s)
PSend == /\ ppc = "send"
         /\ IF rx["W"]
            THEN /\ Len(mb["W"]) < MaxData /\ mb' = [mb EXCEPT !["W"] = Append(@, "data")] /\ ppc' = "wait" /\ UNCHANGED why
            ELSE IF BrokenChannel = "panic"
            THEN /\ ppc' = "drop" /\ why' = [why EXCEPT !["P"] = "panic"] /\ UNCHANGED mb     \* panic!("Broken channel to ShmWriter")
            ELSE /\ ppc' = "top" /\ UNCHANGED <<why, mb>>          \* `continue`: skips the mailbox check
         /\ UNCHANGED <<rx, wpc, mpc, fails, bc, joined>>
PWait == /\ ppc = "wait"                 \* recv_timeout(1 s)
         /\ \/ /\ mb["P"] # <<>> /\ mb' = [mb EXCEPT !["P"] = Tail(@)]
               /\ IF Head(mb["P"]) = "abort" THEN ppc' = "drop" /\ why' = [why EXCEPT !["P"] = "return"]
                  ELSE ppc' = "top" /\ UNCHANGED why
            \/ /\ mb["P"] = <<>> /\ ppc' = "top" /\ UNCHANGED <<mb, why>>
         /\ UNCHANGED <<rx, wpc, mpc, fails, bc, joined>>

\* ---- writer: start (ShmWriter::new) -> recv -> recv ...
WStart == wpc = "start" /\ wpc' = "recv" /\ UNCHANGED <<mb, rx, ppc, mpc, why, fails, bc, joined>>
WRecv == /\ wpc = "recv" /\ mb["W"] # <<>> /\ mb' = [mb EXCEPT !["W"] = Tail(@)]
         /\ IF Head(mb["W"]) = "abort" THEN wpc' = "drop" /\ why' = [why EXCEPT !["W"] = "return"]
            ELSE wpc' = "recv" /\ UNCHANGED why
         /\ UNCHANGED <<rx, ppc, mpc, fails, bc, joined>>

\* ---- a worker fails, anywhere
Fail(t, k) == /\ fails < MaxFail /\ Pc(t) \notin {"drop", "closing", "dead"}
              /\ IF t = "P" THEN ppc' = "drop" /\ UNCHANGED wpc ELSE wpc' = "drop" /\ UNCHANGED ppc
              /\ why' = [why EXCEPT ![t] = k] /\ fails' = fails + 1
              /\ UNCHANGED <<mb, rx, mpc, bc, joined>>

\* ---- Context::drop: tell main (drop body) ...
Drop(t) == /\ Pc(t) = "drop"
           /\ mb' = [mb EXCEPT !["M"] = Append(@, <<IF why[t] = "panic" THEN "panic" ELSE "terminate", t>>)]
           /\ IF t = "P" THEN ppc' = "closing" /\ UNCHANGED wpc ELSE wpc' = "closing" /\ UNCHANGED ppc
           /\ UNCHANGED <<rx, mpc, why, fails, bc, joined>>
\* ... then the fields of the Context are dropped: only now is the mailbox's receiver gone and sends to it fail
Close(t) == /\ Pc(t) = "closing"
            /\ rx' = [rx EXCEPT ![t] = FALSE]
            /\ IF t = "P" THEN ppc' = "dead" /\ UNCHANGED wpc ELSE wpc' = "dead" /\ UNCHANGED ppc
            /\ UNCHANGED <<mb, mpc, why, fails, bc, joined>>

\* ---- main: wait for the first notification, broadcast ThreadAbort to both workers (any order), join both
MRecv == /\ mpc = "recv" /\ mb["M"] # <<>> /\ mb' = [mb EXCEPT !["M"] = Tail(@)]
         /\ mpc' = "bcast" /\ bc' = Workers
         /\ UNCHANGED <<rx, ppc, wpc, why, fails, joined>>
MBcast(t) == /\ mpc = "bcast" /\ t \in bc
             /\ mb' = IF rx[t] THEN [mb EXCEPT ![t] = Append(@, "abort")] ELSE mb      \* a failed send is ignored
             /\ bc' = IF BroadcastPolicy = "stop_on_error" /\ ~rx[t] THEN {} ELSE bc \ {t}
             /\ mpc' = IF bc' = {} THEN "join" ELSE "bcast"
             /\ UNCHANGED <<rx, ppc, wpc, why, fails, joined>>
\* join() of one worker returns once that thread has fully exited; the order of the two joins is an
\* implementation detail (any order: run() returns when both are joined)
MJoin(t) == /\ mpc = "join" /\ t \notin joined /\ Pc(t) = "dead"
            /\ joined' = joined \cup {t}
            /\ mpc' = IF joined' = Workers THEN "exit" ELSE "join"
            /\ UNCHANGED <<mb, rx, ppc, wpc, why, fails, bc>>

Poller == PStart \/ PTop \/ PQuery \/ PSend \/ PWait \/ Drop("P") \/ Close("P")
Writer == WStart \/ WRecv \/ Drop("W") \/ Close("W")
Main == MRecv \/ (\E t \in Workers : MBcast(t)) \/ (\E t \in Workers : MJoin(t))
Next == Poller \/ Writer \/ Main \/ (\E t \in Workers, k \in {"panic", "return"} : Fail(t, k))

\* every live thread keeps taking steps (timeouts expire, the scheduler is fair); failures are not forced
Spec == Init /\ [][Next]_vars /\ WF_vars(Poller) /\ WF_vars(Writer) /\ WF_vars(Main)

AnyDead == ppc \in {"closing", "dead"} \/ wpc \in {"closing", "dead"}
AllExit == ppc = "dead" /\ wpc = "dead" /\ mpc = "exit"
\* C15: if any worker dies, everything stops and run() returns
ExitsPromptly == AnyDead ~> AllExit
\* ... and main never returns while a worker is alive, nor goes back to waiting once a worker is dead
NoEarlyExit == mpc = "exit" => (ppc = "dead" /\ wpc = "dead")
NoPartialPipeline == (AnyDead /\ mb["M"] = <<>> /\ mpc = "recv") => FALSE
TypeOK == /\ ppc \in {"start", "top", "query", "send", "wait", "drop", "closing", "dead"}
          /\ wpc \in {"start", "recv", "drop", "closing", "dead"}
          /\ mpc \in {"recv", "bcast", "join", "exit"}
=============================================================================
