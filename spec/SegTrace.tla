----------------------------- MODULE SegTrace -----------------------------
(***************************************************************************)
(* Binding T for ShmSeg: validate an event log recorded from the real      *)
(* ShmWriter / ShmReader (harness `seg explore`) against the specification.*)
(* One ndjson line per specification action, logged by the controller at   *)
(* the linearization point, with the value loaded/stored and the           *)
(* generation/version/length of the backing file after the step.           *)
(* "Reset" lines start a new independent run (new start file).             *)
(* Every invariant listed in the cfg is evaluated at every state.          *)
(* The trace is accepted iff TLC consumes every line (POSTCONDITION).      *)
(***************************************************************************)
EXTENDS MC_seg, Json, IOUtils

Rec == ndJsonDeserialize(IOEnv.TRACE)

VARIABLE l        \* next line of Rec to explain

E == Rec[l]
IsEv(a) == l <= Len(Rec) /\ Rec[l].a = a /\ l' = l + 1

\* real word j (1-based) of record k as the harness logs it: k itself, or the status code for word 7
StatusOf(k) == IF k = 0 THEN 0 ELSE IF k % 2 = 1 THEN 1 ELSE 2
Logged(j, k) == IF W = 7 /\ j = 7 THEN StatusOf(k) ELSE k

\* the file as the harness saw it right after the step
FileMatches ==
  /\ len' = E.len
  /\ (len' >= 14 => Top("ver")' = E.ver)
  /\ (len' >= 16 => Top("gen")' = E.gen)

FileOf(i) ==
  File(i.ex, i.len, i.mok, i.size, i.ver, i.gen, [j \in Words |-> i.w[j]],
       \* done / k: the harness start classes carry record 1, or record 1 with the first word of 2
       IF \A j \in Words : i.w[j] = 0 THEN 0 ELSE 1,
       IF \A j \in Words : i.w[j] = 0 THEN 0 ELSE IF i.w[1] = 2 THEN 2 ELSE 1)

TReset == IsEv("Reset") /\ ResetTo(FileOf(E.init))

TW(a, A) == IsEv(a) /\ A /\ FileMatches
TWriter ==
  \/ TW("WRestart", WRestart) \/ TW("WCrash", WCrash) \/ TW("WProbe", WProbe) \/ TW("WCreate", WCreate)
  \/ TW("WMagic0", WMagic0) \/ TW("WMagic1", WMagic1) \/ TW("WSize", WSize)
  \/ TW("WVersion0", WVersion0) \/ TW("WGeneration0", WGeneration0) \/ TW("WBody", WBody)
  \/ TW("WSync", WSync) \/ TW("WMmap", WMmap)
  \/ (TW("WVer1", WVer1) /\ E.v = 1)
  \/ (TW("WLoadGen", WLoadGen) /\ wgen' = E.v)
  \/ (TW("WOdd", WOdd) /\ wgen' = E.v)
  \/ TW("WFence", WFenceStep)
  \/ (IsEv("WWord") /\ E.v \in Words /\ WWord(E.v) /\ FileMatches)
  \/ (TW("WEven", WEven) /\ wgen' = E.v)

TR(a, r, A) == IsEv(a) /\ E.p = r /\ A
TReader == \E r \in Readers :
  \/ (TR("ROpen", r, ROpen(r)) /\ openRes'[r] = E.res)
  \/ TR("RCall", r, RCall(r))
  \/ (\E i \in 1..Len(hist["ver"]) : TR("RVer", r, RVerI(r, i)) /\ hist["ver"][i].val = E.v)
  \/ (\E i \in 1..Len(hist["gen"]) : TR("RG1", r, RG1I(r, i)) /\ hist["gen"][i].val = E.v)
  \/ (\E i \in 1..Len(hist[WL(wi[r])]) : TR("RWord", r, RWordI(r, i)) /\ E.v = wi[r]
                                            /\ Logged(wi[r], hist[WL(wi[r])][i].val) = E.lv)
  \/ TR("RFence", r, RFenceStep(r))
  \/ (\E i \in 1..Len(hist["gen"]) : TR("RG2", r, RG2I(r, i)) /\ hist["gen"][i].val = E.v)
  \/ (TR("RSpin", r, RSpin(r, E.v)))
  \/ (TR("RDone", r, RDone(r))
        /\ (E.kind = "ok") = (retKind[r] \in {"cache", "fresh"})
        /\ (E.kind = "ok" => \A j \in Words : Logged(j, ret[r][j]) = E.words[j])
        /\ E.acc = steps[r])

TNext == TReset \/ TWriter \/ TReader

TInit == l = 1 /\ Init

TSpec == TInit /\ [][TNext]_<<vars, l>>

\* acceptance: every line consumed. Stats diameter = longest behaviour = 1 + lines consumed.
Accepted ==
  LET d == TLCGet("stats").diameter IN
    IF d - 1 = Len(Rec) THEN TRUE
    ELSE Print(<<"TRACE-REJECTED at line", d, IF d <= Len(Rec) THEN Rec[d] ELSE "-">>, FALSE)
=============================================================================
