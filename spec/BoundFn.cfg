INIT Init
NEXT Next
