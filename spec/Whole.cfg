INIT Init
NEXT Next
