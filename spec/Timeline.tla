------------------------------ MODULE Timeline ------------------------------
(***************************************************************************)
(* C13, whole process: the status timeline of the segment written by the   *)
(* REAL clockbound binary (unhooked, release) against a scripted fake      *)
(* chronyd, sampled every 50 ms, judged by the schedule the specification  *)
(* (Daemon.GraceSchedule) implies for what a client can observe.           *)
(*                                                                         *)
(* An outcome is published when a poll completes; a poll completes at most *)
(* W = 1 s (sleep) + 3 s (query timeouts) + 2 s (loaded machine) later,    *)
(* so a status chosen at outcome time may be OBSERVED for up to W longer   *)
(* (assumption A5: this window is the only tolerance, stated here):        *)
(*   Synchronized observed at t  =>  a synchronised answer within W + 1 s  *)
(*   FreeRunning  observed at t  =>  some answer ever, and the last one    *)
(*                                   less than 5 s + W before t            *)
(*   hence Unknown at the latest 5 s + W after the last answer, and        *)
(*   nothing but Unknown before the first answer.                          *)
(* Input (TML): one run per line: [id, samples: <<[t_ms, status]>>,        *)
(*   answers: <<[t_ms, sync: BOOLEAN]>>, end_ms].                          *)
(***************************************************************************)
EXTENDS Integers, Sequences, TLC, Json, IOUtils

W == 6000
GRACE == 5000

LastBefore(answers, t, onlySync) ==
  LET S == { i \in 1..Len(answers) : answers[i].t_ms <= t /\ (~onlySync \/ answers[i].sync) } IN
    IF S = {} THEN -1 ELSE answers[CHOOSE i \in S : \A j \in S : answers[j].t_ms <= answers[i].t_ms].t_ms

\* status samples[i].status is observed on [samples[i].t_ms, end of interval)
EndOf(r, i) == IF i < Len(r.samples) THEN r.samples[i + 1].t_ms ELSE r.end_ms

OkSample(r, i) ==
  LET st == r.samples[i].status
      e  == EndOf(r, i) - 1                         \* last instant at which it was observed
      lg == LastBefore(r.answers, e, FALSE)
      ls == LastBefore(r.answers, e, TRUE)
  IN /\ (st = 1 => (ls >= 0 /\ e - ls <= W + 1000))
     /\ (st = 2 => (lg >= 0 /\ e - lg < GRACE + W))
     /\ (st \notin {0, 1, 2} => FALSE)

\* a healthy system is not needlessly degraded: two synchronised answers more than W apart imply Synchronized was seen
SeesSync(r) ==
  (\E i, j \in 1..Len(r.answers) : r.answers[i].sync /\ r.answers[j].sync /\ r.answers[j].t_ms - r.answers[i].t_ms > W)
    => \E k \in 1..Len(r.samples) : r.samples[k].status = 1

Accept(r) == SeesSync(r) /\ \A i \in 1..Len(r.samples) : OkSample(r, i)
Bad(r) == { i \in 1..Len(r.samples) : ~OkSample(r, i) }

Tml == ndJsonDeserialize(IOEnv.TML)
ASSUME PrintT(<<"CHECKED", Len(Tml)>>)
ASSUME PrintT(<<"BADTIMELINE", { Tml[i].id : i \in { j \in 1..Len(Tml) : ~Accept(Tml[j]) } }>>)
ASSUME \A i \in 1..Len(Tml) : ~Accept(Tml[i]) => PrintT(<<"WHY", Tml[i].id, Bad(Tml[i]), SeesSync(Tml[i])>>)
VARIABLE x
Init == x = 0
Next == UNCHANGED x
=============================================================================
