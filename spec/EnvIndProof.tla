---------------------------- MODULE EnvIndProof ----------------------------
(* TLAPS proof: with the read orders of the code, EnvInd!IndInv is an inductive invariant and Containment always holds. *)
EXTENDS EnvInd, TLAPS

ASSUME Orders == CodeOrders

vars == <<now, err, pubd, bound, asOf, ppc, pAsOf, pB, pQueryAt, cpc, cErrAtReal, cRealAt, cMono, cBound, cAsOf, cHalf>>
Spec == Init /\ [][Next]_vars

TypeInv ==
  /\ now \in Int /\ err \in Int /\ pubd \in BOOLEAN /\ bound \in Int /\ asOf \in Int
  /\ pAsOf \in Int /\ pB \in Int /\ pQueryAt \in Int
  /\ cErrAtReal \in Int /\ cRealAt \in Int /\ cMono \in Int /\ cBound \in Int /\ cAsOf \in Int /\ cHalf \in Int
Inv == TypeInv /\ IndInv

THEOREM InitInv == Init => Inv
  BY Orders DEF Init, Inv, TypeInv, IndInv, Containment, Envelope, Abs, CodeOrders

THEOREM StepInv == Inv /\ [Next]_vars => Inv'
<1> SUFFICES ASSUME Inv, [Next]_vars PROVE Inv' OBVIOUS
<1> USE Orders DEF Inv, TypeInv, IndInv, Containment, Envelope, Abs, CodeOrders, WorldU, DaemonU, ClientU
<1>1 CASE Tick BY <1>1, Z3T(60) DEF Tick
<1>2 CASE Correct BY <1>2, Z3T(60) DEF Correct
<1>3 CASE PollFirst BY <1>3, Z3T(60) DEF PollFirst, ReadMono, Query
<1>4 CASE PollSecond BY <1>4, Z3T(60) DEF PollSecond, ReadMono, Query
<1>5 CASE Publish BY <1>5, Z3T(60) DEF Publish
<1>6 CASE Discard BY <1>6, Z3T(60) DEF Discard
<1>7 CASE CallFirst BY <1>7, Z3T(60) DEF CallFirst, ReadReal, ReadMonoC
<1>8 CASE CallSecond BY <1>8, Z3T(60) DEF CallSecond, ReadReal, ReadMonoC
<1>9 CASE CallReturn BY <1>9, Z3T(60) DEF CallReturn
<1>10 CASE UNCHANGED vars BY <1>10 DEF vars
<1> QED BY <1>1, <1>2, <1>3, <1>4, <1>5, <1>6, <1>7, <1>8, <1>9, <1>10 DEF Next

THEOREM Safety == Spec => []Containment
<1>1 Spec => []Inv BY InitInv, StepInv, PTL DEF Spec
<1>2 Inv => Containment BY DEF Inv, IndInv
<1> QED BY <1>1, <1>2, PTL
=============================================================================
