------------------------------ MODULE BoundFn ------------------------------
(***************************************************************************)
(* C07: the bound the daemon derives from a chrony tracking report is      *)
(*     ceil( (|offset| + root_dispersion + root_delay / 2) * 10^9 ) + PHC  *)
(* (README formula), never negative and never smaller than that sum.       *)
(*                                                                         *)
(* Chrony's wire floats are dyadic rationals coef * 2^e (25-bit signed     *)
(* coefficient, e = 7-bit signed exponent - 25), so the README formula can *)
(* be evaluated EXACTLY on the wire values with integer (limb) arithmetic: *)
(* no floating point anywhere in the oracle.                               *)
(*                                                                         *)
(* Input: ndjson named by BND, one report per line:                        *)
(*   [id, delay: [c, e], disp: [c, e], corr: [c, e], phc, got: signed limbs]*)
(* with c the coefficient (integer, sign included) and e the power of two. *)
(* Acceptance (assumption A3, the only tolerance): the code sums in f64.   *)
(*   x = exact sum * 10^9 ;  x - x/10^15 <= got - phc < x + 1 + x/10^15    *)
(*   and got - phc >= 0.                                                   *)
(***************************************************************************)
EXTENDS BoundOps, Json, IOUtils

Bnd == ndJsonDeserialize(IOEnv.BND)
ASSUME PrintT(<<"CHECKED", Len(Bnd)>>)
ASSUME PrintT(<<"BADBOUND", { Bnd[i].id : i \in { j \in 1..Len(Bnd) : ~Accept(Bnd[j]) } }>>)
ASSUME \A i \in 1..(IF Len(Bnd) < 3 THEN Len(Bnd) ELSE 3) : PrintT(<<"SAMPLE", Bnd[i].id, Exact(Bnd[i])>>)

\* sanity of the oracle itself on a small dyadic grid: non-negative, symmetric in the sign of the offset,
\* monotone in each magnitude
T(c, e) == <<c, e>>
Grid == { [delay |-> T(d, -10), disp |-> T(p, -12), corr |-> T(c, -11)] : d \in {0, 1, 6}, p \in {0, 3}, c \in {-5, -1, 0, 1, 5} }
ASSUME \A v \in Grid :
   /\ Exact(v) = Exact([v EXCEPT !.corr = T(-v.corr[1], v.corr[2])])
   /\ Leq(Exact(v), Exact([v EXCEPT !.disp = T(v.disp[1] + 1, v.disp[2])]))
   /\ Leq(Exact(v), Exact([v EXCEPT !.delay = T(v.delay[1] + 2, v.delay[2])]))
\* 7 ms offset, 100 us delay, 20 us dispersion (as dyadic approximations: 7340032*2^-30, 107374*2^-30, 21475*2^-30)
ASSUME PrintT(<<"EXAMPLE", Exact([delay |-> T(107374, -30), disp |-> T(21475, -30), corr |-> T(-7340032, -30)])>>)

VARIABLE x
Init == x = 0
Next == UNCHANGED x
=============================================================================
