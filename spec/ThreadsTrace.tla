---------------------------- MODULE ThreadsTrace ----------------------------
(***************************************************************************)
(* Binding T for Threads: event logs of the real thread_manager::run()     *)
(* (cfg-gated events at Context::drop, the main loop, broadcast_abort, the *)
(* joins and the worker loops; globally ordered by a sequence number taken *)
(* under a lock) are explained by the specification.  Worker steps that    *)
(* the code does not log (clock read, chrony query, timeouts, ShmWriter    *)
(* creation) are silent steps; a natural panic shows up as a Context drop  *)
(* without a preceding Fail event and is explained by Fail . Drop.         *)
(* Accepted iff some behaviour consumes every line: the cfg lists NotDone  *)
(* as an invariant and the run is accepted iff TLC reports it violated.    *)
(***************************************************************************)
EXTENDS Threads, Json, IOUtils

Rec == ndJsonDeserialize(IOEnv.TRACE)
VARIABLE l
E == Rec[l]
Ev(p, ev) == l <= Len(Rec) /\ Rec[l].p = p /\ Rec[l].ev = ev /\ l' = l + 1
T(p) == IF p = "poller" THEN "P" ELSE "W"
KindOf(d) == IF d = "panic" THEN "panic" ELSE "return"

TReset ==
  /\ l <= Len(Rec) /\ Rec[l].ev = "Reset" /\ l' = l + 1
  /\ mb' = [t \in {"M", "P", "W"} |-> <<>>] /\ rx' = [t \in {"M", "P", "W"} |-> TRUE]
  /\ ppc' = "start" /\ wpc' = "start" /\ mpc' = "recv" /\ why' = [t \in Workers |-> "none"]
  /\ fails' = 0 /\ bc' = {} /\ joined' = {}

\* Fail immediately followed by the Context drop body (a panic nobody injected)
FailDrop(t, k) ==
  /\ Pc(t) \notin {"drop", "closing", "dead"}
  /\ mb' = [mb EXCEPT !["M"] = Append(@, <<IF k = "panic" THEN "panic" ELSE "terminate", t>>)]
  /\ why' = [why EXCEPT ![t] = k]
  /\ IF t = "P" THEN ppc' = "closing" /\ UNCHANGED wpc ELSE wpc' = "closing" /\ UNCHANGED ppc
  /\ UNCHANGED <<rx, mpc, fails, bc, joined>>

\* broadcast_abort as one logged event: ThreadAbort to both workers (order irrelevant: different mailboxes)
BroadcastBoth ==
  /\ mpc = "bcast"
  /\ mb' = [t \in {"M", "P", "W"} |-> IF t \in Workers /\ rx[t] THEN Append(mb[t], "abort") ELSE mb[t]]
  /\ bc' = {} /\ mpc' = "join"
  /\ UNCHANGED <<rx, ppc, wpc, why, fails, joined>>

TEvent ==
  \/ (Ev("poller", "Start") /\ PStart)
  \/ (Ev("poller", "PSend") /\ PSend)
  \/ (Ev("poller", "PRecvAbort") /\ PWait /\ ppc' = "drop")
  \/ (Ev("writer", "WHandled") /\ WRecv /\ wpc' = "recv")
  \/ (Ev("writer", "WRecvAbort") /\ WRecv /\ wpc' = "drop")
  \/ (\E p \in {"poller", "writer"} : Ev(p, "Fail") /\ Fail(T(p), IF E.detail = "panic" THEN "panic" ELSE "return"))
  \/ (\E p \in {"poller", "writer"} : Ev(p, "CtxDrop") /\
        \/ (Drop(T(p)) /\ (E.detail = "panic") = (why[T(p)] = "panic"))
        \/ FailDrop(T(p), KindOf(E.detail)))
  \/ (Ev("main", "MainRecv") /\ MRecv /\ Head(mb["M"]) = <<E.kind, T(E.who)>>)
  \/ (Ev("main", "Broadcast") /\ BroadcastBoth)
  \/ (Ev("main", "JoinEnd") /\ \E t \in Workers : MJoin(t))

\* unlogged worker progress
Silent ==
  /\ l' = l
  /\ \/ PTop \/ PQuery \/ WStart \/ Close("P") \/ Close("W")
     \/ (PWait /\ ppc' = "top")

TNext == TReset \/ TEvent \/ Silent
TInit == Init /\ l = 1
TSpec == TInit /\ [][TNext]_<<vars, l>>

\* acceptance by contradiction: all lines consumed <=> this "invariant" is violated
NotDone == l <= Len(Rec)
\* the safety properties of Threads hold in every state of every explanation
TraceSafety == NoEarlyExit
=============================================================================
