------------------------------- MODULE Daemon -------------------------------
(***************************************************************************)
(* The ClockBound daemon's data path: chrony poller -> mailbox -> updater   *)
(* (FSM, freeze rule) -> published record.                                 *)
(*                                                                         *)
(*   poller  : clock-bound-d/src/chrony_poller.rs run_clock_error_bound_poller *)
(*   updater : clock-bound-d/src/shm_writer.rs ShmUpdater / process_messages *)
(*   FSM     : clock-bound-d/src/shm_writer/clock_state_fsm.rs             *)
(*   classes : clock-bound-d/src/lib.rs From<u16> + staleness override     *)
(*                                                                         *)
(* Time is an explicit variable in whole seconds, advanced by Tick(d)      *)
(* between ANY two steps (scheduling delays), so the real constants 5 s    *)
(* and 1000 s are used as they are.  The specification states the REQUIRED *)
(* behaviour; constants name the deviations of the pinned code so that the *)
(* counterexamples stay reproducible in the model.                         *)
(*                                                                         *)
(* Serves C08 C09 C10 C13 (C07 and C19 are the numeric modules BoundFn and *)
(* DriftFn; C01/C12 compose this block with World and ClientFn in E2E).    *)
(***************************************************************************)
EXTENDS Integers, Sequences, FiniteSets, TLC, ClassFn

CONSTANTS
  GRACE,          \* CHRONY_RESTART_GRACE_PERIOD, 5 s
  VOID,           \* void_after - as_of, 1000 s
  Deltas,         \* tick sizes explored
  Bounds,         \* bound values a synchronised report may carry
  Reports,        \* the chrony reports the environment may answer with (AllReports, or representatives)
  PhcBounds,      \* values the PHC error-bound file may hold
  PhcConfigured,  \* BOOLEAN: daemon started with --phc-ref-id / --phc-interface
  Drift,          \* max_drift_ppb given to the updater
  MaxPolls, MaxTicks, MaxStarts,
  PreSyncPolicy   \* "latch": Unknown until a first synchronised report (required, C09)
                  \* "fsm"  : whatever the FSM holds (pinned code)

VARIABLES
  now,          \* true/monotonic time, s
  alive, starts,
  \* ---- poller thread
  ppc,          \* "top" | "query" | "decide" | "sleep"
  pAsOf,        \* monotonic reading taken before the query
  pReply,       \* reply of this iteration, or NoReply
  lastGood,     \* instant of the last good chrony answer as the code tracks it
  \* ---- mailbox of the updater thread (FIFO)
  mbox,
  \* ---- updater thread
  ubound, uasOf, fsm, measured,
  \* ---- the segment: last published record and number of publications
  pub, npub,
  \* ---- ghosts
  everGood, lastGoodReal,   \* whether / when chronyd really answered last (since this start)
  lastSync,                 \* [b, asOf] of the latest report classified Synchronized
  lastOut,                  \* the outcome processed last by the updater
  polls, ticks

vars == <<now, alive, starts, ppc, pAsOf, pReply, lastGood, mbox, ubound, uasOf, fsm, measured, pub, npub,
          everGood, lastGoodReal, lastSync, lastOut, polls, ticks>>

NoReply == [kind |-> "none"]
NoRec == [asOf |-> 0, voidAfter |-> 0, bound |-> 0, drift |-> 0, status |-> "U"]
NoOut == [kind |-> "none", cls |-> "U"]

\* ------------------------------------------------------------------ classification (C10)
\* LeapClass / Classify / RefPos: module ClassFn

\* representative leap codes: 0,1,2 synchronised; 3 unsynchronised; 4 stands for every other value
Leaps == {0, 1, 2, 3, 4}
AllReports == [kind : {"reply"}, leap : Leaps, refPos : RefPos, b : Bounds, refMatch : BOOLEAN]

\* ------------------------------------------------------------------ world
Tick(d) ==
  /\ ticks < MaxTicks
  /\ now' = now + d /\ ticks' = ticks + 1
  /\ UNCHANGED <<alive, starts, ppc, pAsOf, pReply, lastGood, mbox, ubound, uasOf, fsm, measured, pub, npub,
                 everGood, lastGoodReal, lastSync, lastOut, polls>>

\* ------------------------------------------------------------------ daemon life cycle
\* a (re)start: fresh poller (last good answer 5 s in the past), fresh updater (placeholders, FSM Unknown).
\* The segment keeps the last record of the previous incarnation (warm takeover, C04).
DaemonStart ==
  /\ ~alive /\ starts < MaxStarts
  /\ alive' = TRUE /\ starts' = starts + 1
  /\ ppc' = "top" /\ pAsOf' = 0 /\ pReply' = NoReply
  /\ lastGood' = now - GRACE
  /\ mbox' = <<>>
  /\ ubound' = 0 /\ uasOf' = 0 /\ fsm' = "U" /\ measured' = FALSE
  /\ everGood' = FALSE /\ lastGoodReal' = 0 /\ lastSync' = [b |-> 0, asOf |-> 0] /\ lastOut' = NoOut
  /\ UNCHANGED <<now, pub, npub, polls, ticks>>

DaemonDie ==
  /\ alive /\ alive' = FALSE
  /\ UNCHANGED <<now, starts, ppc, pAsOf, pReply, lastGood, mbox, ubound, uasOf, fsm, measured, pub, npub,
                 everGood, lastGoodReal, lastSync, lastOut, polls, ticks>>

\* ------------------------------------------------------------------ poller iteration
PU == UNCHANGED <<alive, starts, mbox, ubound, uasOf, fsm, measured, pub, npub, lastSync, lastOut, ticks, now>>

\* clock_gettime_safe(CLOCK_MONOTONIC) before anything else
PollReadMono ==
  /\ alive /\ ppc = "top" /\ polls < MaxPolls
  /\ pAsOf' = now /\ ppc' = "query" /\ polls' = polls + 1
  /\ UNCHANGED <<pReply, lastGood, everGood, lastGoodReal>> /\ PU

\* poller.get_tracking(): the environment answers (any report) or stays silent
PollQuery ==
  /\ alive /\ ppc = "query"
  /\ \/ \E r \in Reports :
          /\ pReply' = r /\ lastGood' = now
          /\ everGood' = TRUE /\ lastGoodReal' = now
     \/ /\ pReply' = NoReply /\ UNCHANGED <<lastGood, everGood, lastGoodReal>>
  /\ ppc' = "decide"
  /\ UNCHANGED <<pAsOf, polls>> /\ PU

WithinGrace == now - lastGood < GRACE

\* message selection, PHC read included, and the send
PollDecide ==
  /\ alive /\ ppc = "decide"
  /\ \E m \in
       IF pReply = NoReply
       THEN { [kind |-> IF WithinGrace THEN "NoReplyGrace" ELSE "NoReply", rep |-> NoReply, phc |-> 0, asOf |-> 0] }
       ELSE IF PhcConfigured /\ pReply.refMatch
       THEN { [kind |-> "Data", rep |-> pReply, phc |-> v, asOf |-> pAsOf] : v \in PhcBounds }        \* PHC file read
            \cup { [kind |-> IF WithinGrace THEN "PhcFailGrace" ELSE "PhcFail", rep |-> pReply, phc |-> 0, asOf |-> 0] }   \* unreadable
       ELSE { [kind |-> "Data", rep |-> pReply, phc |-> 0, asOf |-> pAsOf] } :
       mbox' = Append(mbox, m)
  /\ ppc' = "sleep" /\ pReply' = NoReply
  /\ UNCHANGED <<alive, starts, pAsOf, lastGood, ubound, uasOf, fsm, measured, pub, npub, everGood, lastGoodReal, lastSync, lastOut, polls, ticks, now>>

\* recv_timeout expired: next iteration
PollWake ==
  /\ alive /\ ppc = "sleep" /\ ppc' = "top"
  /\ UNCHANGED <<pAsOf, pReply, lastGood, everGood, lastGoodReal, polls>> /\ PU

\* ------------------------------------------------------------------ updater
MsgClass(m) ==
  IF m.kind = "Data" THEN Classify(m.rep.leap, m.rep.refPos)
  ELSE IF m.kind \in {"NoReplyGrace", "PhcFailGrace"} THEN "F"
  ELSE "U"

\* ctx.mbox.recv() + process_clock_update / process_missing_clock_update + write_clock_error_bound
UpdRecv ==
  /\ alive /\ mbox # <<>>
  /\ LET m   == Head(mbox)
         cls == MsgClass(m)
         syn == m.kind = "Data" /\ cls = "S"
         nb  == IF syn THEN m.rep.b + m.phc ELSE ubound
         na  == IF syn THEN m.asOf ELSE uasOf
         nm  == measured \/ syn
     IN /\ mbox' = Tail(mbox)
        /\ fsm' = cls                         \* FSM: next state = latest class, for all 3 x 3 pairs
        /\ ubound' = nb /\ uasOf' = na /\ measured' = nm
        /\ lastSync' = IF syn THEN [b |-> m.rep.b + m.phc, asOf |-> m.asOf] ELSE lastSync
        /\ lastOut' = [kind |-> m.kind, cls |-> cls]
        /\ pub' = [asOf |-> na, voidAfter |-> na + VOID, bound |-> nb, drift |-> Drift,
                   status |-> IF PreSyncPolicy = "latch" /\ ~nm THEN "U" ELSE cls]
        /\ npub' = npub + 1
  /\ UNCHANGED <<now, alive, starts, ppc, pAsOf, pReply, lastGood, everGood, lastGoodReal, polls, ticks>>

Init ==
  /\ now = 0 /\ alive = FALSE /\ starts = 0
  /\ ppc = "top" /\ pAsOf = 0 /\ pReply = NoReply /\ lastGood = 0
  /\ mbox = <<>> /\ ubound = 0 /\ uasOf = 0 /\ fsm = "U" /\ measured = FALSE
  /\ pub = NoRec /\ npub = 0
  /\ everGood = FALSE /\ lastGoodReal = 0 /\ lastSync = [b |-> 0, asOf |-> 0] /\ lastOut = NoOut
  /\ polls = 0 /\ ticks = 0

Next ==
  \/ \E d \in Deltas : Tick(d)
  \/ DaemonStart \/ DaemonDie
  \/ PollReadMono \/ PollQuery \/ PollDecide \/ PollWake
  \/ UpdRecv

Spec == Init /\ [][Next]_vars

\* ------------------------------------------------------------------ properties
\* C08: the published record tracks the chrony history
Tracks ==
  (alive /\ lastOut.kind # "none") =>
    /\ pub.drift = Drift
    /\ pub.voidAfter = pub.asOf + VOID
    /\ pub.bound = lastSync.b /\ pub.asOf = lastSync.asOf          \* frozen on anything but a synchronised report
    /\ (measured => pub.status = lastOut.cls)                      \* status depends only on the latest outcome
    /\ (lastOut.kind = "Data" /\ lastOut.cls = "S" => pub.status = "S")
EveryOutcomePublishes == [][(alive /\ alive' /\ Len(mbox') < Len(mbox)) => npub' = npub + 1]_vars

\* C09: no trust before a first measurement (per daemon start)
NoTrustBeforeMeasure == (alive /\ lastOut.kind # "none" /\ pub.status # "U") => measured

\* C13: outages and PHC failures degrade on schedule
GraceSchedule ==
  [][Len(mbox') = Len(mbox) + 1 =>
       LET m == mbox'[Len(mbox')] IN
         /\ (m.kind \in {"NoReplyGrace", "PhcFailGrace"} => (everGood /\ now - lastGoodReal < GRACE))
         /\ (m.kind \in {"NoReply", "PhcFail"} => (~everGood \/ now - lastGoodReal >= GRACE))]_vars
PhcRule ==
  \A i \in 1..Len(mbox) : LET m == mbox[i] IN
    /\ (m.kind = "Data" => (m.phc # 0 => (PhcConfigured /\ m.rep.refMatch)))
    /\ (m.kind \in {"PhcFail", "PhcFailGrace"} => (PhcConfigured /\ m.rep.refMatch))
    /\ (m.kind \in {"NoReply", "NoReplyGrace"} => m.rep = NoReply)

\* C12 (poller half): the as-of instant of a message never postdates the reply it belongs to
AsOfBeforeReply == (alive /\ ppc = "decide" /\ pReply # NoReply) => pAsOf <= lastGoodReal

TypeOK ==
  /\ ppc \in {"top", "query", "decide", "sleep"}
  /\ fsm \in {"U", "S", "F"} /\ pub.status \in {"U", "S", "F"}
=============================================================================
