----------------------------- MODULE MC_daemon -----------------------------
EXTENDS Daemon
DeltasQ == {1, 4, 5}
DeltasT == {1, 4, 5, 6, 994, 1000}
BoundsQ == {3, 7}
PhcQ == {2}
Rep(l, p, b, m) == [kind |-> "reply", leap |-> l, refPos |-> p, b |-> b, refMatch |-> m]
\* one representative per class of Classify x PHC relevance (the full table is decided in MC_class)
\* replay configurations: bounds in nanoseconds that chrony's wire format carries exactly (k * 2^-7 s)
BoundsR == {23437500, 54687500}
RepR == { Rep(1, "fresh", b, m) : b \in BoundsR, m \in BOOLEAN } \cup
        { Rep(3, "fresh", 23437500, TRUE), Rep(3, "fresh", 23437500, FALSE), Rep(0, "stale", 23437500, FALSE), Rep(4, "fresh", 23437500, FALSE), Rep(2, "future", 23437500, TRUE), Rep(3, "future", 23437500, FALSE) }
RepQ == { Rep(1, "fresh", b, m) : b \in BoundsQ, m \in BOOLEAN } \cup
        { Rep(3, "fresh", 3, TRUE), Rep(3, "fresh", 3, FALSE), Rep(0, "stale", 3, FALSE), Rep(4, "fresh", 3, FALSE), Rep(2, "future", 3, TRUE), Rep(3, "future", 3, FALSE) }
=============================================================================
