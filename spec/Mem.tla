-------------------------------- MODULE Mem --------------------------------
(***************************************************************************)
(* Shared memory under a view-based operational model of C11               *)
(* release/acquire (promise-free fragment of the Promising Semantics).     *)
(*                                                                         *)
(* hist[x]   : sequence of messages [val, view] ever written to location x *)
(*             (one writer at a time => modification order = append order) *)
(* a view    : function Locs -> message index (0 = bottom)                 *)
(* per thread: cur (current view), acq (acquired-but-not-fenced view),     *)
(*             rel[x] (release view per location)                          *)
(*                                                                         *)
(* The operators are pure: they take the old memory/thread views and       *)
(* return the new ones, so that the same text serves the writer, every     *)
(* reader and both memory models.  With SC = TRUE a store REPLACES the     *)
(* single message of its location and views stay frozen (sequential        *)
(* consistency without history blow-up).                                   *)
(***************************************************************************)
EXTENDS Integers, Sequences

CONSTANTS Locs,   \* set of location names (strings)
          SC      \* TRUE: sequentially consistent memory

Bot == [x \in Locs |-> 0]
One == [x \in Locs |-> 1]
Join(a, b) == [x \in Locs |-> IF a[x] >= b[x] THEN a[x] ELSE b[x]]
Single(x, i) == [y \in Locs |-> IF y = x THEN i ELSE 0]
Msg(v, view) == [val |-> v, view |-> view]

Last(hist, x) == Len(hist[x])
Top(hist, x) == hist[x][Len(hist[x])].val
TopView(hist) == [x \in Locs |-> Len(hist[x])]

\* Initial memory: one message per location carrying value init[x]
InitHist(init) == [x \in Locs |-> << Msg(init[x], One) >>]

\* ---- store of value v to x by a thread with views (cur, rel); ord \in {"Relaxed","Release"}
Store(hist, cur, rel, x, v, ord) ==
  IF SC
  THEN [hist |-> [hist EXCEPT ![x] = << Msg(v, One) >>], cur |-> cur, rel |-> rel]
  ELSE LET i    == Len(hist[x]) + 1
           ncur == [cur EXCEPT ![x] = i]
           mv   == IF ord = "Release" THEN ncur ELSE Join(rel[x], Single(x, i))
       IN [hist |-> [hist EXCEPT ![x] = Append(@, Msg(v, mv))],
           cur  |-> ncur,
           rel  |-> IF ord = "Release" THEN [rel EXCEPT ![x] = ncur] ELSE rel]

\* ---- message indices a thread with current view cur may read at x
Readable(hist, cur, x) ==
  IF SC THEN {Len(hist[x])} ELSE { i \in 1..Len(hist[x]) : i >= cur[x] }

\* ---- load of message i at x; ord \in {"Relaxed","Acquire"}
Load(hist, cur, acq, x, i, ord) ==
  IF SC
  THEN [cur |-> cur, acq |-> acq, val |-> hist[x][i].val]
  ELSE LET m    == hist[x][i]
           base == [cur EXCEPT ![x] = i]
           nacq == Join(Join(acq, m.view), Single(x, i))
       IN [cur |-> IF ord = "Acquire" THEN Join(base, m.view) ELSE base,
           acq |-> nacq,
           val |-> m.val]

\* ---- fences
FenceRelease(cur, rel) == IF SC THEN rel ELSE [x \in Locs |-> cur]
FenceAcquire(cur, acq) == IF SC THEN cur ELSE Join(cur, acq)

\* ---- a system call that rewrites every cell (truncate/zero): fully synchronising
ZeroAll(hist) ==
  IF SC THEN [x \in Locs |-> << Msg(0, One) >>]
  ELSE [x \in Locs |-> Append(hist[x], Msg(0, [y \in Locs |-> Len(hist[y]) + 1]))]

\* ---- view of a thread that just synchronised with everything (process start, syscall)
SyncView(hist) == IF SC THEN One ELSE TopView(hist)
=============================================================================
