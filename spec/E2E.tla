------------------------------- MODULE E2E -------------------------------
(***************************************************************************)
(* End-to-end composition (C01, C12): WORLD (true time, the system clock's *)
(* error, drift <= RHO) + the daemon's data path + an abstract segment +   *)
(* the client function, with every clock read a separate step and Tick     *)
(* allowed between any two steps.                                          *)
(*                                                                         *)
(* Units: time 1 s; error 1 unit = RHO * 1 s (what the oscillator may      *)
(* drift in one second), so the real thresholds 5 s / 1000 s are used.     *)
(*                                                                         *)
(* WORLD    err = system clock - true time; Tick(d) moves it by +-RHO*d    *)
(*          (the extremes suffice: every quantity below is monotone in     *)
(*          |err|).  A synchronised chrony report carries any (sign, off,  *)
(*          rest) with |err at reply time| <= off + rest  (validity        *)
(*          premise of C01); other reports carry garbage.                  *)
(* DAEMON   as in Daemon.tla, restricted to what containment depends on:   *)
(*          poller iteration (mono read / query / deliver), freeze rule,   *)
(*          FSM = latest class, grace via lastGood, pre-sync policy.       *)
(* SEGMENT  abstract: a reader obtains the latest record or its cached one *)
(*          (exactly what ShmSeg's NoTorn + Monotone guarantee).           *)
(* CLIENT   ClientFn with Growth = RHO * age (scaled).                     *)
(*                                                                         *)
(* The two read orders are constants EXTRACTED from the code (binding X);  *)
(* OffsetTerm / PreSyncPolicy name the deviations of the pinned code so    *)
(* that their counterexamples stay reproducible in the model.              *)
(***************************************************************************)
EXTENDS Integers, Sequences, FiniteSets, TLC

CONSTANTS GRACE, VOID, RHO, Deltas, Bounds, MaxSteps, EMax, MaxTick, MaxPoll, MaxAsk, MaxStart,
          OffsetTerm,      \* "abs" (required) | "signed" (pinned code)
          PreSyncPolicy,   \* "unknown" (required) | "fsm" (pinned code)
          PollerOrder,     \* "mono_first" (code) | "query_first"
          ClientOrder      \* "real_first" (code) | "mono_first"

VARIABLES now, err, steps,
          alive, lastGood, fsm, bound, asOf, measured,      \* daemon
          ppc, pAsOf, pMsg,                                  \* poller iteration
          seg,                                               \* latest published record or NoRec
          cache, cpc, cRec, cErrAtReal, cMono, cOut          \* client

vars == <<now, err, steps, alive, lastGood, fsm, bound, asOf, measured, ppc, pAsOf, pMsg, seg, cache, cpc, cRec, cErrAtReal, cMono, cOut>>

NoRec == [asOf |-> 0, void |-> 0, bound |-> 0, st |-> "U", meas |-> FALSE]
Abs(x) == IF x < 0 THEN -x ELSE x
NoMsg == [kind |-> "none"]

Init ==
  /\ now = 0 /\ err \in {-1, 0, 2} /\ steps = [tick |-> 0, poll |-> 0, ask |-> 0, start |-> 0]
  /\ alive = FALSE /\ lastGood = 0 /\ fsm = "U" /\ bound = 0 /\ asOf = 0 /\ measured = FALSE
  /\ ppc = "idle" /\ pAsOf = 0 /\ pMsg = NoMsg
  /\ seg = NoRec /\ cache = NoRec
  /\ cpc = "idle" /\ cRec = NoRec /\ cErrAtReal = 0 /\ cMono = 0 /\ cOut = [st |-> "U", half |-> 0]

DU == UNCHANGED <<alive, lastGood, fsm, bound, asOf, measured>>
PU == UNCHANGED <<ppc, pAsOf, pMsg>>
CU == UNCHANGED <<cache, cpc, cRec, cErrAtReal, cMono, cOut>>
St == UNCHANGED steps
Inc(k) == steps' = [steps EXCEPT ![k] = @ + 1]

\* ------------------------------------------------------------ world
Tick(d) ==
  /\ now' = now + d
  /\ err' \in {err - RHO * d, err + RHO * d}
  /\ Abs(err') <= EMax
  /\ Inc("tick") /\ DU /\ PU /\ CU /\ UNCHANGED seg

\* ------------------------------------------------------------ daemon life cycle
DaemonStart ==
  /\ ~alive /\ alive' = TRUE
  /\ lastGood' = now - GRACE /\ fsm' = "U" /\ bound' = 0 /\ asOf' = 0 /\ measured' = FALSE
  /\ ppc' = "idle" /\ pAsOf' = 0 /\ pMsg' = NoMsg
  /\ Inc("start") /\ CU /\ UNCHANGED <<now, err, seg>>
DaemonDie ==
  /\ alive /\ alive' = FALSE /\ ppc' = "idle" /\ pMsg' = NoMsg
  /\ St /\ CU /\ UNCHANGED <<now, err, seg, lastGood, fsm, bound, asOf, measured, pAsOf>>

\* ------------------------------------------------------------ poller iteration
\* mono_first : idle -ReadMono-> q -Query-> s -Deliver-> idle
\* query_first: idle -Query-> m -ReadMono-> s -Deliver-> idle
Outcome(m) ==   \* environment answers at the time of the query; m is the message without asOf
  \/ \E B \in Bounds, sign \in {-1, 1} : \E off \in {0, B} :
        /\ Abs(err) <= B                      \* validity premise of C01
        /\ m = [kind |-> "data", cls |-> "S", sign |-> sign, off |-> off, rest |-> B - off]
  \/ m = [kind |-> "data", cls |-> "F", sign |-> 1, off |-> 0, rest |-> 7]    \* leap 3 / stale: values are garbage
  \/ m = [kind |-> "data", cls |-> "U", sign |-> 1, off |-> 0, rest |-> 7]    \* unusable
  \/ m = [kind |-> "none"]                                                     \* no reply

PReadMono ==
  /\ alive
  /\ \/ (PollerOrder = "mono_first" /\ ppc = "idle" /\ ppc' = "q")
     \/ (PollerOrder = "query_first" /\ ppc = "m" /\ ppc' = "s")
  /\ pAsOf' = now
  /\ St /\ DU /\ CU /\ UNCHANGED <<now, err, seg, pMsg>>

PQuery ==
  /\ alive
  /\ \/ (PollerOrder = "mono_first" /\ ppc = "q" /\ ppc' = "s")
     \/ (PollerOrder = "query_first" /\ ppc = "idle" /\ ppc' = "m")
  /\ \E m \in { [kind |-> "none"] } \cup
              { [kind |-> "data", cls |-> c, sign |-> sg, off |-> o, rest |-> r] :
                  c \in {"S", "F", "U"}, sg \in {-1, 1}, o \in Bounds \cup {0}, r \in Bounds \cup {0, 7} } :
        /\ Outcome(m)
        /\ pMsg' = m
        /\ lastGood' = IF m.kind = "data" THEN now ELSE lastGood
  /\ St /\ CU /\ UNCHANGED <<now, err, seg, pAsOf, alive, fsm, bound, asOf, measured>>

Publish(b, a, f, ms) ==
  seg' = [asOf |-> a, void |-> a + VOID, bound |-> b,
          st |-> (IF PreSyncPolicy = "unknown" /\ ~ms THEN "U" ELSE f), meas |-> ms]

PDeliver ==   \* send + updater receive + publish (one consumer, FIFO: composed)
  /\ alive /\ ppc = "s" /\ ppc' = "idle"
  /\ IF pMsg.kind = "data"
     THEN LET cls == pMsg.cls
              b == (IF OffsetTerm = "abs" THEN pMsg.off ELSE pMsg.sign * pMsg.off) + pMsg.rest
              nb == IF cls = "S" THEN b ELSE bound
              na == IF cls = "S" THEN pAsOf ELSE asOf
              nm == measured \/ cls = "S"
          IN /\ fsm' = cls /\ bound' = nb /\ asOf' = na /\ measured' = nm
             /\ Publish(nb, na, cls, nm)
     ELSE LET cls == IF now - lastGood < GRACE THEN "F" ELSE "U"
          IN /\ fsm' = cls /\ UNCHANGED <<bound, asOf, measured>>
             /\ Publish(bound, asOf, cls, measured)
  /\ pMsg' = NoMsg
  /\ Inc("poll") /\ CU /\ UNCHANGED <<now, err, alive, lastGood, pAsOf>>

\* ------------------------------------------------------------ client
\* snapshot: latest record or (update in flight / coincidence) the cached one
CSnap ==
  /\ cpc = "idle"
  /\ \/ (cRec' = seg /\ cache' = seg)
     \/ (cRec' = cache /\ UNCHANGED cache)
  /\ cpc' = "c1"
  /\ Inc("ask") /\ DU /\ PU /\ UNCHANGED <<now, err, seg, cErrAtReal, cMono, cOut>>
CReadReal ==
  /\ \/ (ClientOrder = "real_first" /\ cpc = "c1" /\ cpc' = "c2")
     \/ (ClientOrder = "mono_first" /\ cpc = "c2" /\ cpc' = "c3")
  /\ cErrAtReal' = err
  /\ St /\ DU /\ PU /\ UNCHANGED <<now, err, seg, cache, cRec, cMono, cOut>>
CReadMono ==
  /\ \/ (ClientOrder = "real_first" /\ cpc = "c2" /\ cpc' = "c3")
     \/ (ClientOrder = "mono_first" /\ cpc = "c1" /\ cpc' = "c2")
  /\ cMono' = now
  /\ St /\ DU /\ PU /\ UNCHANGED <<now, err, seg, cache, cRec, cErrAtReal, cOut>>
Status(r, m) ==
  IF r.st = "U" THEN "U"
  ELSE IF m < r.asOf + GRACE THEN r.st
  ELSE IF m < r.void THEN "F" ELSE "U"
CCompute ==
  /\ cpc = "c3" /\ cpc' = "done"
  /\ cOut' = [st |-> Status(cRec, cMono),
              half |-> cRec.bound + RHO * (IF cMono >= cRec.asOf THEN cMono - cRec.asOf ELSE 0)]
  /\ St /\ DU /\ PU /\ UNCHANGED <<now, err, seg, cache, cRec, cErrAtReal, cMono>>
CDone ==
  /\ cpc = "done" /\ cpc' = "idle"
  /\ St /\ DU /\ PU /\ UNCHANGED <<now, err, seg, cache, cRec, cErrAtReal, cMono, cOut>>

Next ==
  \/ \E d \in Deltas : Tick(d)
  \/ DaemonStart \/ DaemonDie \/ PReadMono \/ PQuery \/ PDeliver
  \/ CSnap \/ CReadReal \/ CReadMono \/ CCompute \/ CDone
Spec == Init /\ [][Next]_vars

Bounded == steps.tick <= MaxTick /\ steps.poll <= MaxPoll /\ steps.ask <= MaxAsk /\ steps.start <= MaxStart
\* C01
Containment == (cpc = "done" /\ cOut.st \in {"S", "F"}) => Abs(cErrAtReal) <= cOut.half
\* C09
NoTrustBeforeMeasure == seg.st # "U" => seg.meas
=============================================================================
