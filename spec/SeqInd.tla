------------------------------- MODULE SeqInd -------------------------------
(***************************************************************************)
(* C02 / C03 for an UNBOUNDED number of publications, writer deaths and    *)
(* warm restarts, under sequential consistency: "a snapshot accepted by    *)
(* the second generation load is one publication, and the latest completed *)
(* one" as an inductive invariant, discharged by Apalache (no bound on the *)
(* length of the behaviour; publication ids and the generation are         *)
(* unbounded integers).                                                    *)
(*   apalache-mc check --init=Init    --inv=IndInv --length=0 SeqInd.tla   *)
(*   apalache-mc check --init=IndInit --inv=IndInv --length=1 SeqInd.tla   *)
(*                                                                         *)
(* What is abstracted, and where it is decided instead:                    *)
(*  - the generation does not wrap here. The 16-bit wrap is GenInd.tla     *)
(*    (protocol, all 65 536 values) and, for a wrap inside one call, the   *)
(*    recorded finding C02/in-call-generation-wrap;                        *)
(*  - sequential consistency. The release/acquire argument (fences) is     *)
(*    ShmSeg.tla over Mem.tla, exhaustive for small constants with the     *)
(*    orderings extracted from the code;                                   *)
(*  - the record is two words (the real copy is seven relaxed word         *)
(*    accesses; two already distinguish "all from one publication");       *)
(*  - cold starts (wipe) do not happen while a reader is attached:         *)
(*    ShmSeg's NoReaderDuringWipe.                                         *)
(* The actions are the ones of ShmSeg.tla (WLoad, WOdd, WWord, WEven,      *)
(* WDie/Restart; RG1, RWord, RG2 with the outcomes of the second load),    *)
(* which the replay and trace bindings tie to the code; SegRefines.tla     *)
(* has TLC check that ShmSeg (SC, warm starts) refines this module and     *)
(* that its reachable states satisfy IndInv under the refinement mapping.  *)
(***************************************************************************)
EXTENDS Integers

Readers == {"r1", "r2"}

VARIABLES
  \* @type: Int;
  gen,      \* generation cell
  \* @type: Int;
  w1,       \* first word of the record: id of the publication it belongs to
  \* @type: Int;
  w2,       \* second word
  \* @type: Str;
  wpc,      \* "idle" | "ld" | "odd" | "h1" | "h2" | "dead"
  \* @type: Int;
  cur,      \* id of the publication being (or last) written
  \* @type: Int;
  done,     \* id of the latest completed publication (0: the initial record)
  \* @type: Str -> Str;
  rpc,      \* "idle" | "g1" | "d1" | "d2"
  \* @type: Str -> Int;
  rg1,      \* generation seen by the first load
  \* @type: Str -> Int;
  rv1,      \* first word read
  \* @type: Str -> Int;
  rv2,      \* second word read
  \* @type: Str -> Int;
  cgen,     \* generation of the cached snapshot
  \* @type: Str -> Int;
  cpub      \* publication of the cached snapshot

IsEven(x) == x % 2 = 0

Init ==
  /\ gen = 0 /\ w1 = 0 /\ w2 = 0 /\ wpc = "idle" /\ cur = 0 /\ done = 0
  /\ rpc = [r \in Readers |-> "idle"] /\ rg1 = [r \in Readers |-> 0]
  /\ rv1 = [r \in Readers |-> 0] /\ rv2 = [r \in Readers |-> 0]
  /\ cgen = [r \in Readers |-> 0] /\ cpub = [r \in Readers |-> 0]

RU == UNCHANGED <<rpc, rg1, rv1, rv2, cgen, cpub>>
WU == UNCHANGED <<gen, w1, w2, wpc, cur, done>>

\* ------------------------------------------------------------------ writer (ShmWriter::write, death, warm restart)
WLoad == wpc = "idle" /\ cur' = cur + 1 /\ wpc' = "ld" /\ UNCHANGED <<gen, w1, w2, done>> /\ RU
WOdd  == wpc = "ld" /\ gen' = (IF IsEven(gen) THEN gen + 1 ELSE gen) /\ wpc' = "odd"
         /\ UNCHANGED <<w1, w2, cur, done>> /\ RU
WWord1 == wpc = "odd" /\ w1' = cur /\ wpc' = "h1" /\ UNCHANGED <<gen, w2, cur, done>> /\ RU
WWord2 == wpc = "h1" /\ w2' = cur /\ wpc' = "h2" /\ UNCHANGED <<gen, w1, cur, done>> /\ RU
WEven == wpc = "h2" /\ gen' = gen + 1 /\ done' = cur /\ wpc' = "idle" /\ UNCHANGED <<w1, w2, cur>> /\ RU
WDie == wpc \in {"idle", "ld", "odd", "h1", "h2"} /\ wpc' = "dead" /\ UNCHANGED <<gen, w1, w2, cur, done>> /\ RU
WRestart == wpc = "dead" /\ wpc' = "idle" /\ UNCHANGED <<gen, w1, w2, cur, done>> /\ RU     \* usable segment: taken over in place

\* ------------------------------------------------------------------ reader (ShmReader::snapshot)
\* first load: 0, odd, or unchanged => the cached snapshot is returned (the call ends); else a copy is attempted
RG1(r) ==
  /\ rpc[r] = "idle"
  /\ IF gen = 0 \/ ~IsEven(gen) \/ gen = cgen[r]
     THEN UNCHANGED <<rpc, rg1>>
     ELSE rg1' = [rg1 EXCEPT ![r] = gen] /\ rpc' = [rpc EXCEPT ![r] = "g1"]
  /\ UNCHANGED <<rv1, rv2, cgen, cpub>> /\ WU
RD1(r) == rpc[r] = "g1" /\ rv1' = [rv1 EXCEPT ![r] = w1] /\ rpc' = [rpc EXCEPT ![r] = "d1"]
          /\ UNCHANGED <<rg1, rv2, cgen, cpub>> /\ WU
RD2(r) == rpc[r] = "d1" /\ rv2' = [rv2 EXCEPT ![r] = w2] /\ rpc' = [rpc EXCEPT ![r] = "d2"]
          /\ UNCHANGED <<rg1, rv1, cgen, cpub>> /\ WU
\* second load: equal => accept; else retry, re-targeting if the new value is even
RG2(r) ==
  /\ rpc[r] = "d2"
  /\ IF gen = rg1[r]
     THEN /\ cgen' = [cgen EXCEPT ![r] = rg1[r]] /\ cpub' = [cpub EXCEPT ![r] = rv1[r]]
          /\ rpc' = [rpc EXCEPT ![r] = "idle"] /\ UNCHANGED rg1
     ELSE /\ rg1' = [rg1 EXCEPT ![r] = IF IsEven(gen) THEN gen ELSE rg1[r]]
          \* next attempt, or the retry budget ran out (bounded: C18; the call ends with an error, nothing is cached)
          /\ \E nxt \in {"g1", "idle"} : rpc' = [rpc EXCEPT ![r] = nxt]
          /\ UNCHANGED <<cgen, cpub>>
  /\ UNCHANGED <<rv1, rv2>> /\ WU

Next == WLoad \/ WOdd \/ WWord1 \/ WWord2 \/ WEven \/ WDie \/ WRestart
        \/ \E r \in Readers : RG1(r) \/ RD1(r) \/ RD2(r) \/ RG2(r)
vars == <<gen, w1, w2, wpc, cur, done, rpc, rg1, rv1, rv2, cgen, cpub>>

\* ------------------------------------------------------------------ what is claimed
\* a copy about to be accepted is one publication (C02) and the latest completed one (C03, FreshIsLatest)
AcceptOk == \A r \in Readers : (rpc[r] = "d2" /\ gen = rg1[r]) => (rv1[r] = rv2[r] /\ rv1[r] = done)
\* what a reader holds in its cache was a completed publication, never a later one than the latest (C02, C03)
CacheOk == \A r \in Readers : cpub[r] <= done /\ cgen[r] <= gen /\ cgen[r] >= 0 /\ IsEven(cgen[r])
\* the cached snapshot is the latest whenever the first load would serve it for "unchanged" (C03 CatchUp, no wrap)
ServeOk == \A r \in Readers : (gen = cgen[r] /\ gen # 0) => cpub[r] = done

\* ------------------------------------------------------------------ the inductive strengthening
TypeOK ==
  /\ gen \in Int /\ w1 \in Int /\ w2 \in Int /\ cur \in Int /\ done \in Int
  /\ gen >= 0 /\ cur >= 0 /\ done >= 0 /\ done <= cur
  /\ wpc \in {"idle", "ld", "odd", "h1", "h2", "dead"}
  /\ rpc \in [Readers -> {"idle", "g1", "d1", "d2"}]
  /\ rg1 \in [Readers -> Int] /\ rv1 \in [Readers -> Int] /\ rv2 \in [Readers -> Int]
  /\ cgen \in [Readers -> Int] /\ cpub \in [Readers -> Int]

WriterInv ==
  /\ (wpc \in {"odd", "h1", "h2"} => ~IsEven(gen))
  /\ (wpc \in {"ld", "odd", "h1", "h2"} => done < cur)
  /\ (IsEven(gen) => (w1 = done /\ w2 = done))
  /\ (wpc = "h1" => w1 = cur)
  /\ (wpc = "h2" => (w1 = cur /\ w2 = cur))

ReaderInv ==
  \A r \in Readers :
    /\ (rpc[r] # "idle" => (IsEven(rg1[r]) /\ rg1[r] > 0 /\ rg1[r] <= gen))
    /\ ((rpc[r] \in {"d1", "d2"} /\ gen = rg1[r]) => rv1[r] = done)
    /\ ((rpc[r] = "d2" /\ gen = rg1[r]) => rv2[r] = done)

IndInv == TypeOK /\ WriterInv /\ ReaderInv /\ AcceptOk /\ CacheOk /\ ServeOk

IndInit ==
  /\ gen \in Int /\ w1 \in Int /\ w2 \in Int /\ cur \in Int /\ done \in Int
  /\ wpc \in {"idle", "ld", "odd", "h1", "h2", "dead"}
  /\ rpc \in [Readers -> {"idle", "g1", "d1", "d2"}]
  /\ rg1 \in [Readers -> Int] /\ rv1 \in [Readers -> Int] /\ rv2 \in [Readers -> Int]
  /\ cgen \in [Readers -> Int] /\ cpub \in [Readers -> Int]
  /\ IndInv
=============================================================================
