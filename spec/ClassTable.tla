----------------------------- MODULE ClassTable -----------------------------
(* C10 oracle: TLC checks the statement on the whole table, then evaluates Classify on every    *)
(* (leap status, reference-time position) the harness pushed through the real                   *)
(* extract_bound_from_tracking and the real updater, and compares.                              *)
EXTENDS ClassFn, TLC, Json, IOUtils, Sequences
ASSUME C10Statement
Cls == ndJsonDeserialize(IOEnv.CLS)
Code(c) == IF c = "U" THEN 0 ELSE IF c = "S" THEN 1 ELSE 2
ASSUME PrintT(<<"CHECKED", Len(Cls)>>)
ASSUME PrintT(<<"BADCLASS", { Cls[i].id : i \in { j \in 1..Len(Cls) : Code(Classify(Cls[j].leap, Cls[j].refPos)) # Cls[j].got } }>>)
\* published status after the report, from each prior FSM state: equals the class once a measurement exists
ASSUME PrintT(<<"BADPUB", { Cls[i].id : i \in { j \in 1..Len(Cls) : \E k \in 1..Len(Cls[j].pub) : Cls[j].pub[k] # Code(Classify(Cls[j].leap, Cls[j].refPos)) } }>>)
\* C09 through the classifier: from a fresh updater, a report that is not Synchronized-class publishes Unknown (pub0 = 9: not run)
ASSUME PrintT(<<"BADPUB0", { Cls[i].id : i \in { j \in 1..Len(Cls) : Cls[j].pub0 # 9 /\ Cls[j].pub0 # (IF Classify(Cls[j].leap, Cls[j].refPos) = "S" THEN 1 ELSE 0) } }>>)
VARIABLE x
Init == x = 0
Next == UNCHANGED x
=============================================================================
