----------------------------- MODULE ClientFn -----------------------------
(***************************************************************************)
(* ClockErrorBound::compute_bound_at (clock-bound-shm/src/lib.rs) as a     *)
(* function, transcribed branch for branch.  Serves C05 C06 C14 (and feeds *)
(* C01 C12 C17).                                                           *)
(*                                                                         *)
(* The module is parametric in its arithmetic so that the same definitions *)
(* are (a) decided symbolically for all integers by Apalache (ClientInt)   *)
(* and (b) evaluated by TLC on recorded 64-bit values through exact limb   *)
(* arithmetic (ClientBig).  All quantities are nanoseconds.                *)
(***************************************************************************)
CONSTANTS Add(_, _), Sub(_, _), Less(_, _), MulDivG(_, _),   \* +, -, <, floor(a*b / 10^9)
          Zero, GRACE, BLUR, GVAL                            \* 0, 5 s, 1000 ns, 10^9

\* status codes as in docs/PROTOCOL.md: 0 Unknown, 1 Synchronized, 2 FreeRunning
\* (lib.rs match on self.clock_status)
Status(st, asOf, voidAfter, mono) ==
  IF st = 0 THEN 0
  ELSE IF Less(mono, Add(asOf, GRACE)) THEN st
  ELSE IF Less(mono, voidAfter) THEN 2
  ELSE 0

\* causality window: mono >= as_of, or as_of - blur < mono < as_of
Causal(asOf, mono) == ~Less(mono, asOf) \/ Less(asOf, Add(mono, BLUR))
Dur(asOf, mono) == IF ~Less(mono, asOf) THEN Sub(mono, asOf) ELSE Zero

\* growth of the bound: drift (ppb) times age, truncated to whole nanoseconds
Growth(d, drift) == MulDivG(d, drift)
\* @type: ({asOf: Int, voidAfter: Int, bound: Int, drift: Int, status: Int}, Int) => Int;
HalfWidth(rec, mono) == Add(rec.bound, Growth(Dur(rec.asOf, mono), rec.drift))

\* rec = [asOf, voidAfter, bound, drift, status]
\* (the type annotations are for Apalache's instance over Int only; TLC ignores them)
\* @type: ({asOf: Int, voidAfter: Int, bound: Int, drift: Int, status: Int}, Int, Int) => {kind: Str, earliest: Int, latest: Int, status: Int};
Now(rec, real, mono) ==
  IF ~Less(rec.drift, GVAL) THEN [kind |-> "SegmentMalformed", earliest |-> Zero, latest |-> Zero, status |-> 0]
  ELSE IF ~Causal(rec.asOf, mono) THEN [kind |-> "CausalityBreach", earliest |-> Zero, latest |-> Zero, status |-> 0]
  ELSE [kind |-> "Ok",
        earliest |-> Sub(real, HalfWidth(rec, mono)),
        latest |-> Add(real, HalfWidth(rec, mono)),
        status |-> Status(rec.status, rec.asOf, rec.voidAfter, mono)]
=============================================================================
