------------------------------ MODULE BoundOps ------------------------------
(***************************************************************************)
(* C07: the bound the daemon derives from a chrony tracking report is      *)
(*     ceil( (|offset| + root_dispersion + root_delay / 2) * 10^9 ) + PHC  *)
(* (README formula), never negative and never smaller than that sum.       *)
(*                                                                         *)
(* Chrony's wire floats are dyadic rationals coef * 2^e (25-bit signed     *)
(* coefficient, e = 7-bit signed exponent - 25), so the README formula can *)
(* be evaluated EXACTLY on the wire values with integer (limb) arithmetic: *)
(* no floating point anywhere in the oracle.                               *)
(*                                                                         *)
(* Input: ndjson named by BND, one report per line:                        *)
(*   [id, delay: [c, e], disp: [c, e], corr: [c, e], phc, got: signed limbs]*)
(* with c the coefficient (integer, sign included) and e the power of two. *)
(* Acceptance (assumption A3, the only tolerance): the code sums in f64.   *)
(*   x = exact sum * 10^9 ;  x - x/10^15 <= got - phc < x + 1 + x/10^15    *)
(*   and got - phc >= 0.                                                   *)
(***************************************************************************)
EXTENDS Big, TLC, Sequences

K == 96                                 \* every wire exponent used is >= -(K - 1)
RECURSIVE P2(_)
P2(n) == IF n = 0 THEN <<1>> ELSE LET p == P2(n - 1) IN Add(p, p)
P2K == P2(K)
G9 == <<0, 0, 0, 1>>                    \* 10^9

Abs(i) == IF i < 0 THEN -i ELSE i
\* |c| * 2^(e + K + shift) as a natural (shift = -1 for the halved delay)
Scaled(t, shift) == Mul(FromNat(Abs(t[1])), P2(t[2] + K + shift))

\* numerator over 2^K of (|corr| + disp + delay/2) * 10^9
Num(v) == Mul(Add(Add(Scaled(v.corr, 0), Scaled(v.disp, 0)), Scaled(v.delay, -1)), G9)

RECURSIVE HalfN(_, _)
HalfN(a, n) == IF n = 0 THEN a ELSE HalfN(Half2(a), n - 1)
\* ceil(N / 2^K)
CeilDiv(N) == HalfN(Add(N, Sub(P2K, <<1>>)), K)
Exact(v) == CeilDiv(Num(v))             \* the README formula without the PHC term

Accept(v) ==
  LET got == S(v.got.n, v.got.m)
      core == SSub(got, SNat(FromNat(v.phc)))          \* bound minus the PHC error bound
      N == Num(v)
      tol == Add(DropLimbs(N, 5), <<1>>)
      lhs == Mul(core.mag, P2K)                         \* core * 2^K
  IN /\ ~got.neg
     /\ ~core.neg
     /\ Leq(Sub(N, IF Leq(tol, N) THEN tol ELSE N), lhs)            \* core >= x - tol
     /\ Less(lhs, Add(Add(N, P2K), tol))                            \* core <  x + 1 + tol
=============================================================================
