INIT Init
NEXT Next
