---- MODULE ThreadsTrace_TTrace_1790481098 ----
EXTENDS Sequences, TLCExt, ThreadsTrace, Toolbox, Naturals, TLC

_expression ==
    LET ThreadsTrace_TEExpression == INSTANCE ThreadsTrace_TEExpression
    IN ThreadsTrace_TEExpression!expression
----

_trace ==
    LET ThreadsTrace_TETrace == INSTANCE ThreadsTrace_TETrace
    IN ThreadsTrace_TETrace!trace
----

_inv ==
    ~(
        TLCGet("level") = Len(_TETrace)
        /\
        bc = ({})
        /\
        mpc = ("exit")
        /\
        ppc = ("dead")
        /\
        mb = ([P |-> <<"abort">>, M |-> <<<<"panic", "P">>>>, W |-> <<>>])
        /\
        rx = ([P |-> FALSE, M |-> TRUE, W |-> FALSE])
        /\
        joined = ({"P", "W"})
        /\
        why = ([P |-> "panic", W |-> "panic"])
        /\
        wpc = ("dead")
        /\
        l = (11)
        /\
        fails = (1)
    )
----

_init ==
    /\ mb = _TETrace[1].mb
    /\ bc = _TETrace[1].bc
    /\ fails = _TETrace[1].fails
    /\ l = _TETrace[1].l
    /\ why = _TETrace[1].why
    /\ ppc = _TETrace[1].ppc
    /\ rx = _TETrace[1].rx
    /\ joined = _TETrace[1].joined
    /\ mpc = _TETrace[1].mpc
    /\ wpc = _TETrace[1].wpc
----

_next ==
    /\ \E i,j \in DOMAIN _TETrace:
        /\ \/ /\ j = i + 1
              /\ i = TLCGet("level")
        /\ mb  = _TETrace[i].mb
        /\ mb' = _TETrace[j].mb
        /\ bc  = _TETrace[i].bc
        /\ bc' = _TETrace[j].bc
        /\ fails  = _TETrace[i].fails
        /\ fails' = _TETrace[j].fails
        /\ l  = _TETrace[i].l
        /\ l' = _TETrace[j].l
        /\ why  = _TETrace[i].why
        /\ why' = _TETrace[j].why
        /\ ppc  = _TETrace[i].ppc
        /\ ppc' = _TETrace[j].ppc
        /\ rx  = _TETrace[i].rx
        /\ rx' = _TETrace[j].rx
        /\ joined  = _TETrace[i].joined
        /\ joined' = _TETrace[j].joined
        /\ mpc  = _TETrace[i].mpc
        /\ mpc' = _TETrace[j].mpc
        /\ wpc  = _TETrace[i].wpc
        /\ wpc' = _TETrace[j].wpc

\* Uncomment the ASSUME below to write the states of the error trace
\* to the given file in Json format. Note that you can pass any tuple
\* to `JsonSerialize`. For example, a sub-sequence of _TETrace.
    \* ASSUME
    \*     LET J == INSTANCE Json
    \*         IN J!JsonSerialize("ThreadsTrace_TTrace_1790481098.json", _TETrace)

=============================================================================

 Note that you can extract this module `ThreadsTrace_TEExpression`
  to a dedicated file to reuse `expression` (the module in the 
  dedicated `ThreadsTrace_TEExpression.tla` file takes precedence 
  over the module `ThreadsTrace_TEExpression` below).

---- MODULE ThreadsTrace_TEExpression ----
EXTENDS Sequences, TLCExt, ThreadsTrace, Toolbox, Naturals, TLC

expression == 
    [
        \* To hide variables of the `ThreadsTrace` spec from the error trace,
        \* remove the variables below.  The trace will be written in the order
        \* of the fields of this record.
        mb |-> mb
        ,bc |-> bc
        ,fails |-> fails
        ,l |-> l
        ,why |-> why
        ,ppc |-> ppc
        ,rx |-> rx
        ,joined |-> joined
        ,mpc |-> mpc
        ,wpc |-> wpc
        
        \* Put additional constant-, state-, and action-level expressions here:
        \* ,_stateNumber |-> _TEPosition
        \* ,_mbUnchanged |-> mb = mb'
        
        \* Format the `mb` variable as Json value.
        \* ,_mbJson |->
        \*     LET J == INSTANCE Json
        \*     IN J!ToJson(mb)
        
        \* Lastly, you may build expressions over arbitrary sets of states by
        \* leveraging the _TETrace operator.  For example, this is how to
        \* count the number of times a spec variable changed up to the current
        \* state in the trace.
        \* ,_mbModCount |->
        \*     LET F[s \in DOMAIN _TETrace] ==
        \*         IF s = 1 THEN 0
        \*         ELSE IF _TETrace[s].mb # _TETrace[s-1].mb
        \*             THEN 1 + F[s-1] ELSE F[s-1]
        \*     IN F[_TEPosition - 1]
    ]

=============================================================================



Parsing and semantic processing can take forever if the trace below is long.
 In this case, it is advised to uncomment the module below to deserialize the
 trace from a generated binary file.

\*
\*---- MODULE ThreadsTrace_TETrace ----
\*EXTENDS IOUtils, ThreadsTrace, TLC
\*
\*trace == IODeserialize("ThreadsTrace_TTrace_1790481098.bin", TRUE)
\*
\*=============================================================================
\*

---- MODULE ThreadsTrace_TETrace ----
EXTENDS ThreadsTrace, TLC

trace == 
    <<
    ([bc |-> {},mpc |-> "recv",ppc |-> "start",mb |-> [P |-> <<>>, M |-> <<>>, W |-> <<>>],rx |-> [P |-> TRUE, M |-> TRUE, W |-> TRUE],joined |-> {},why |-> [P |-> "none", W |-> "none"],wpc |-> "start",l |-> 1,fails |-> 0]),
    ([bc |-> {},mpc |-> "recv",ppc |-> "start",mb |-> [P |-> <<>>, M |-> <<>>, W |-> <<>>],rx |-> [P |-> TRUE, M |-> TRUE, W |-> TRUE],joined |-> {},why |-> [P |-> "none", W |-> "none"],wpc |-> "start",l |-> 2,fails |-> 0]),
    ([bc |-> {},mpc |-> "recv",ppc |-> "top",mb |-> [P |-> <<>>, M |-> <<>>, W |-> <<>>],rx |-> [P |-> TRUE, M |-> TRUE, W |-> TRUE],joined |-> {},why |-> [P |-> "none", W |-> "none"],wpc |-> "start",l |-> 3,fails |-> 0]),
    ([bc |-> {},mpc |-> "recv",ppc |-> "top",mb |-> [P |-> <<>>, M |-> <<>>, W |-> <<>>],rx |-> [P |-> TRUE, M |-> TRUE, W |-> TRUE],joined |-> {},why |-> [P |-> "none", W |-> "panic"],wpc |-> "drop",l |-> 4,fails |-> 1]),
    ([bc |-> {},mpc |-> "recv",ppc |-> "top",mb |-> [P |-> <<>>, M |-> <<<<"panic", "W">>>>, W |-> <<>>],rx |-> [P |-> TRUE, M |-> TRUE, W |-> FALSE],joined |-> {},why |-> [P |-> "none", W |-> "panic"],wpc |-> "dead",l |-> 5,fails |-> 1]),
    ([bc |-> {},mpc |-> "recv",ppc |-> "query",mb |-> [P |-> <<>>, M |-> <<<<"panic", "W">>>>, W |-> <<>>],rx |-> [P |-> TRUE, M |-> TRUE, W |-> FALSE],joined |-> {},why |-> [P |-> "none", W |-> "panic"],wpc |-> "dead",l |-> 5,fails |-> 1]),
    ([bc |-> {},mpc |-> "recv",ppc |-> "send",mb |-> [P |-> <<>>, M |-> <<<<"panic", "W">>>>, W |-> <<>>],rx |-> [P |-> TRUE, M |-> TRUE, W |-> FALSE],joined |-> {},why |-> [P |-> "none", W |-> "panic"],wpc |-> "dead",l |-> 5,fails |-> 1]),
    ([bc |-> {},mpc |-> "recv",ppc |-> "drop",mb |-> [P |-> <<>>, M |-> <<<<"panic", "W">>>>, W |-> <<>>],rx |-> [P |-> TRUE, M |-> TRUE, W |-> FALSE],joined |-> {},why |-> [P |-> "panic", W |-> "panic"],wpc |-> "dead",l |-> 6,fails |-> 1]),
    ([bc |-> {"P", "W"},mpc |-> "bcast",ppc |-> "drop",mb |-> [P |-> <<>>, M |-> <<>>, W |-> <<>>],rx |-> [P |-> TRUE, M |-> TRUE, W |-> FALSE],joined |-> {},why |-> [P |-> "panic", W |-> "panic"],wpc |-> "dead",l |-> 7,fails |-> 1]),
    ([bc |-> {},mpc |-> "joinP",ppc |-> "drop",mb |-> [P |-> <<"abort">>, M |-> <<>>, W |-> <<>>],rx |-> [P |-> TRUE, M |-> TRUE, W |-> FALSE],joined |-> {},why |-> [P |-> "panic", W |-> "panic"],wpc |-> "dead",l |-> 8,fails |-> 1]),
    ([bc |-> {},mpc |-> "joinP",ppc |-> "dead",mb |-> [P |-> <<"abort">>, M |-> <<<<"panic", "P">>>>, W |-> <<>>],rx |-> [P |-> FALSE, M |-> TRUE, W |-> FALSE],joined |-> {},why |-> [P |-> "panic", W |-> "panic"],wpc |-> "dead",l |-> 9,fails |-> 1]),
    ([bc |-> {},mpc |-> "joinW",ppc |-> "dead",mb |-> [P |-> <<"abort">>, M |-> <<<<"panic", "P">>>>, W |-> <<>>],rx |-> [P |-> FALSE, M |-> TRUE, W |-> FALSE],joined |-> {"P"},why |-> [P |-> "panic", W |-> "panic"],wpc |-> "dead",l |-> 10,fails |-> 1]),
    ([bc |-> {},mpc |-> "exit",ppc |-> "dead",mb |-> [P |-> <<"abort">>, M |-> <<<<"panic", "P">>>>, W |-> <<>>],rx |-> [P |-> FALSE, M |-> TRUE, W |-> FALSE],joined |-> {"P", "W"},why |-> [P |-> "panic", W |-> "panic"],wpc |-> "dead",l |-> 11,fails |-> 1])
    >>
----


=============================================================================

---- CONFIG ThreadsTrace_TTrace_1790481098 ----
CONSTANTS
    MaxFail = 1000000
    MaxData = 1000000
    BroadcastPolicy = "all"
    BrokenChannel = "panic"

INVARIANT
    _inv

CHECK_DEADLOCK
    \* CHECK_DEADLOCK off because of PROPERTY or INVARIANT above.
    FALSE

INIT
    _init

NEXT
    _next

CONSTANT
    _TETrace <- _trace

ALIAS
    _expression
=============================================================================
\* Generated on Sun Sep 27 03:51:38 UTC 2026