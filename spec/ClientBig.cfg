INIT Init
NEXT Next
