---------------------------- MODULE GenIndProof ----------------------------
(* TLAPS proof that GenInd!IndInv is inductive and implies the generation protocol (C11), for all 65536 values. *)
EXTENDS GenInd, TLAPS

vars == <<gen, pc, loc, published, unfinished>>
Spec == Init /\ [][Next]_vars
TypeInv == published \in BOOLEAN /\ unfinished \in BOOLEAN
Inv == TypeInv /\ IndInv

THEOREM InitInv == Init => Inv
  BY DEF Init, Inv, TypeInv, IndInv, GenProtocol, M

THEOREM StepInv == Inv /\ [Next]_vars => Inv'
<1> SUFFICES ASSUME Inv, [Next]_vars PROVE Inv' OBVIOUS
<1> USE DEF Inv, TypeInv, IndInv, GenProtocol, M, OddOf, EvenAfter
<1>1 CASE Load BY <1>1, Z3T(60) DEF Load
<1>2 CASE StoreOdd BY <1>2, Z3T(60) DEF StoreOdd
<1>3 CASE StoreEven BY <1>3, Z3T(60) DEF StoreEven
<1>4 CASE Crash BY <1>4, Z3T(60) DEF Crash
<1>5 CASE Restart BY <1>5, Z3T(60) DEF Restart
<1>6 CASE UNCHANGED vars BY <1>6 DEF vars
<1> QED BY <1>1, <1>2, <1>3, <1>4, <1>5, <1>6 DEF Next

THEOREM Safety == Spec => []GenProtocol
<1>1 Spec => []Inv BY InitInv, StepInv, PTL DEF Spec
<1>2 Inv => GenProtocol BY DEF Inv, IndInv
<1> QED BY <1>1, <1>2, PTL
=============================================================================
