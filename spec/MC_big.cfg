INIT Init
NEXT Next
