SPECIFICATION Spec
CONSTANTS
 SC = TRUE
 W = 2
 GenMod = 65536
 RETRY = 2
 Readers <- R1
 MaxPub = 1
 MaxCrash = 0
 MaxInc = 0
 MaxCalls = 0
 StartFiles <- SFone
 WProg <- WPinned
 RProg <- RPinned
CHECK_DEADLOCK FALSE
