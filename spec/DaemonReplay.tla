--------------------------- MODULE DaemonReplay ---------------------------
(* Binding R for Daemon: every generated transition prints one EDGE line    *)
(* (see SegReplay.tla for the technique).  Needs -workers 1.                *)
EXTENDS MC_daemon, Json

VARIABLE sid
ASSUME TLCSet(1, 1)

Proj == [now |-> now, alive |-> alive, ppc |-> ppc, pAsOf |-> pAsOf,
         mbox |-> [i \in 1..Len(mbox) |-> [kind |-> mbox[i].kind, phc |-> mbox[i].phc, asOf |-> mbox[i].asOf]],
         pub |-> pub, npub |-> npub, measured |-> measured, grace |-> WithinGrace]

Fresh == TLCGet(1)
L(A, name, arg) ==
  /\ A
  /\ sid' = Fresh /\ TLCSet(1, Fresh + 1)
  /\ PrintT(<<"EDGE", ToJson([s |-> sid, d |-> sid', a |-> name, p |-> "D", v |-> arg, exp |-> Proj'])>>)

RInit ==
  /\ Init
  /\ sid = Fresh /\ TLCSet(1, Fresh + 1)
  /\ PrintT(<<"EDGE", ToJson([s |-> 0, d |-> sid, a |-> "Init", p |-> "-", v |-> 0, exp |-> Proj])>>)

\* the wrapped actions carry their nondeterministic choice as the argument
QueryWith(r) ==
  /\ alive /\ ppc = "query"
  /\ IF r = NoReply
     THEN pReply' = NoReply /\ UNCHANGED <<lastGood, everGood, lastGoodReal>>
     ELSE pReply' = r /\ lastGood' = now /\ everGood' = TRUE /\ lastGoodReal' = now
  /\ ppc' = "decide"
  /\ UNCHANGED <<pAsOf, polls>> /\ PU

RNext ==
  \/ \E d \in Deltas : L(Tick(d), "Tick", d)
  \/ L(DaemonStart, "DaemonStart", 0) \/ L(DaemonDie, "DaemonDie", 0)
  \/ L(PollReadMono, "PollReadMono", 0)
  \/ \E r \in Reports \cup {NoReply} : L(QueryWith(r), "PollQuery", r)
  \/ L(PollDecide, "PollDecide", IF Len(mbox') > 0 THEN mbox'[Len(mbox')] ELSE 0)
  \/ L(PollWake, "PollWake", 0)
  \/ L(UpdRecv, "UpdRecv", lastOut')

RSpec == RInit /\ [][RNext]_<<vars, sid>>
ViewNoSid == vars
=============================================================================
