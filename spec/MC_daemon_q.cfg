SPECIFICATION Spec
CONSTANTS
 GRACE = 5
 VOID = 1000
 Deltas <- DeltasQ
 Bounds <- BoundsQ
 Reports <- RepQ
 PhcBounds <- PhcQ
 PhcConfigured = TRUE
 Drift = 50000
 MaxPolls = 3
 MaxTicks = 2
 MaxStarts = 2
 PreSyncPolicy = "latch"
INVARIANTS TypeOK Tracks NoTrustBeforeMeasure PhcRule AsOfBeforeReply
PROPERTIES EveryOutcomePublishes GraceSchedule
CHECK_DEADLOCK FALSE
