SPECIFICATION Spec
CONSTANTS
 GRACE = 5
 VOID = 1000
 Deltas <- DeltasQ
 Bounds <- BoundsQ
 PhcBounds <- PhcQ
 PhcConfigured = TRUE
 Drift = 50000
 MaxPolls = 3
 MaxTicks = 3
 MaxStarts = 2
 PreSyncPolicy = "latch"
INVARIANTS TypeOK Tracks NoTrustBeforeMeasure GraceSchedule PhcRule AsOfBeforeReply
PROPERTIES EveryOutcomePublishes
CHECK_DEADLOCK FALSE
