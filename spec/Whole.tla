------------------------------- MODULE Whole -------------------------------
(***************************************************************************)
(* Whole process, values: every record published by the REAL clockbound    *)
(* binary (release, unhooked, started with real command-line arguments)    *)
(* against a scripted fake chronyd - and, where configured, a fake sysfs   *)
(* PHC device - judged by what Daemon.tla's Tracks / PhcRule /             *)
(* AsOfBeforeReply and BoundOps say the record must be.                    *)
(*                                                                         *)
(* A run r: [id, drift, phcConfigured,                                     *)
(*   answers: << [req_us, ans_us, sync, refmatch, phcv, corr, delay, disp] >>, *)
(*   samples: << [t_us, status, as_s, as_n, asof_us, va_s, va_n, drift, bound] >> ] *)
(* Times are CLOCK_MONOTONIC microseconds since just before the daemon was *)
(* started. req_us / ans_us: the fake chronyd received the request / sent  *)
(* the answer. phcv: content of the PHC error-bound file while the answer  *)
(* was being processed, -1 if it was absent. t_us: a reading taken AFTER   *)
(* the sampler read the record from the segment file.                      *)
(*                                                                         *)
(* Daemon.UpdRecv: the record carries bound and as-of of the latest USABLE *)
(* answer (synchronised, and its PHC error bound readable if the PHC is    *)
(* the reference), place-holders before the first one; void-after is as-of *)
(* + 1000 s rounded down to a whole second; the drift is the configured    *)
(* one.  Daemon.PollReadMono / PollQuery: the as-of reading is taken after *)
(* the previous poll and BEFORE the request is sent.                       *)
(* The only tolerance (assumption A5): an answer sent at most TOL before   *)
(* the sample may or may not have been published yet.                      *)
(***************************************************************************)
EXTENDS BoundOps, Integers, Json, IOUtils

TOL == 2500000      \* us
COARSE == 10000     \* us: the as-of reading is CLOCK_MONOTONIC_COARSE, which lags the fine clock by up to one tick

Usable(r, k) == r.answers[k].sync /\ ((r.phcConfigured /\ r.answers[k].refmatch) => r.answers[k].phcv >= 0)
PhcTerm(r, k) == IF r.phcConfigured /\ r.answers[k].refmatch THEN r.answers[k].phcv ELSE 0
SentBy(r, t) == { k \in 1..Len(r.answers) : Usable(r, k) /\ r.answers[k].ans_us <= t }
MaxOf(Q) == CHOOSE q \in Q : \A y \in Q : y <= q
\* the answers a record sampled at t may stem from; 0 = none yet (place-holders)
Cand(r, t) ==
  LET early == SentBy(r, t - TOL) IN
    IF early = {} THEN SentBy(r, t) \cup {0} ELSE { k \in SentBy(r, t) : k >= MaxOf(early) }

PrevAns(r, k) == IF k = 1 THEN 0 ELSE r.answers[k - 1].ans_us

PlaceHolders(s) == s.as_s = 0 /\ s.as_n = 0 /\ s.bound.m = <<>>
Explains(r, s, k, term) ==
  LET a == r.answers[k] IN Accept([corr |-> a.corr, delay |-> a.delay, disp |-> a.disp, phc |-> term, got |-> s.bound])
AsOfLow(r, s, k)  == PrevAns(r, k) <= s.asof_us + COARSE     \* read after the previous poll was answered
AsOfHigh(r, s, k) == s.asof_us <= r.answers[k].req_us        \* and before this request reached chronyd (C12, poller half)

\* the answers (within the candidates) whose values explain the published bound
Expl(r, s) == { k \in Cand(r, s.t_us) \ {0} : Explains(r, s, k, PhcTerm(r, k)) }
ValueOk(r, s) == (0 \in Cand(r, s.t_us) /\ PlaceHolders(s)) \/ Expl(r, s) # {}
AsOfOk(r, s)  == (0 \in Cand(r, s.t_us) /\ PlaceHolders(s)) \/ \E k \in Expl(r, s) : AsOfLow(r, s, k) /\ AsOfHigh(r, s, k)

Syncs(r) == { k \in 1..Len(r.answers) : r.answers[k].sync }
\* some usable answer of the run, under the right PHC term, explains the bound (the formula is right, the tracking is not)
AnyExplains(r, s) == PlaceHolders(s) \/ \E k \in Syncs(r) : Usable(r, k) /\ Explains(r, s, k, PhcTerm(r, k))
\* explained only under the wrong PHC term, or by a report whose PHC error bound could not be read
PhcWrong(r, s) ==
  \E k \in Syncs(r) :
     \/ Explains(r, s, k, 0) /\ (PhcTerm(r, k) # 0 \/ ~Usable(r, k))
     \/ r.answers[k].phcv > 0 /\ PhcTerm(r, k) = 0 /\ Explains(r, s, k, r.answers[k].phcv)

\* what is wrong with a sample, named after the part of the specification it contradicts
Tags(r, s) ==
     (IF s.drift # r.drift THEN {"drift"} ELSE {})                                   \* Tracks: pub.drift = Drift          (C19, C08)
  \cup (IF ~(s.va_s = s.as_s + 1000 /\ s.va_n = 0) THEN {"void"} ELSE {})          \* Tracks: voidAfter = asOf + VOID     (C08)
  \cup (IF PlaceHolders(s) /\ s.status # 0 THEN {"trust"} ELSE {})                 \* NoTrustBeforeMeasure                (C09, C08)
  \cup (IF ValueOk(r, s) THEN (IF AsOfOk(r, s) THEN {}
                               ELSE IF \A k \in Expl(r, s) : ~AsOfHigh(r, s, k) THEN {"asof-late"}   \* AsOfBeforeReply (C12, C08)
                               ELSE {"asof-early"})                                                 \* Tracks: asOf of that report (C08)
        ELSE IF AnyExplains(r, s) THEN {"tracking"}                                  \* Tracks: latest usable report        (C08)
        ELSE IF PhcWrong(r, s) THEN {"phc"}                                          \* PhcRule                             (C13, C07, C08)
        ELSE {"formula"})                                                            \* BoundOps                            (C07, C08)

OkSample(r, s) == Tags(r, s) = {}

\* the run exercised something: a usable answer was published at some point (unless the script has none)
Exercised(r) == (\E k \in 1..Len(r.answers) : Usable(r, k) /\ r.answers[k].ans_us + TOL < r.end_us)
                   => \E i \in 1..Len(r.samples) : r.samples[i].as_s # 0

BadSamples(r) == { i \in 1..Len(r.samples) : ~OkSample(r, r.samples[i]) }
AcceptRun(r) == BadSamples(r) = {} /\ Exercised(r)
TagsOf(r) == { <<i, t>> : i \in BadSamples(r), t \in {"drift", "void", "trust", "asof-late", "asof-early", "tracking", "phc", "formula"} }
RunTags(r) == { p \in TagsOf(r) : p[2] \in Tags(r, r.samples[p[1]]) }

Runs == ndJsonDeserialize(IOEnv.WHL)
ASSUME PrintT(<<"CHECKED", Len(Runs)>>)
ASSUME PrintT(<<"BADRUN", { Runs[i].id : i \in { j \in 1..Len(Runs) : ~AcceptRun(Runs[j]) } }>>)
ASSUME \A i \in 1..Len(Runs) : ~AcceptRun(Runs[i]) => PrintT(<<"WHY", Runs[i].id, RunTags(Runs[i]), Exercised(Runs[i])>>)

\* sanity of the rule itself on a hand-made run
T1 == [id |-> 0, drift |-> 7000, phcConfigured |-> FALSE, end_us |-> 9000000,
       answers |-> << [req_us |-> 1000000, ans_us |-> 1000100, sync |-> TRUE, refmatch |-> FALSE, phcv |-> 77,
                       corr |-> <<-3, -12>>, delay |-> <<5, -9>>, disp |-> <<1, -11>>] >>,
       samples |-> << [t_us |-> 5000000, status |-> 1, as_s |-> 100, as_n |-> 5, asof_us |-> 999000, va_s |-> 1100, va_n |-> 0,
                       drift |-> 7000, bound |-> [n |-> FALSE, m |-> <<516, 103, 6>>]] >>]
TagsT(r) == Tags(r, r.samples[1])
ASSUME AcceptRun(T1)
ASSUME TagsT([T1 EXCEPT !.samples[1].bound.m = <<515, 103, 6>>]) = {"formula"}        \* rounded down
ASSUME TagsT([T1 EXCEPT !.samples[1].bound.m = <<593, 103, 6>>]) = {"phc"}            \* PHC term added although not the reference
ASSUME TagsT([T1 EXCEPT !.samples[1].asof_us = 1000050]) = {"asof-late"}              \* as-of after the request
ASSUME TagsT([T1 EXCEPT !.samples[1].va_n = 5]) = {"void"}
ASSUME TagsT([T1 EXCEPT !.samples[1].drift = 7]) = {"drift"}
ASSUME TagsT([T1 EXCEPT !.samples[1].as_s = 0, !.samples[1].as_n = 0, !.samples[1].bound.m = <<>>, !.samples[1].status = 0,
                        !.samples[1].va_s = 1000]) = {"tracking"}       \* still place-holders 4 s after a usable answer
ASSUME TagsT([T1 EXCEPT !.samples[1].as_s = 0, !.samples[1].as_n = 0, !.samples[1].bound.m = <<>>, !.samples[1].status = 2,
                        !.samples[1].va_s = 1000, !.samples[1].t_us = 1200000]) = {"trust"}

VARIABLE x
Init == x = 0
Next == UNCHANGED x
=============================================================================
