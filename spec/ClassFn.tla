------------------------------ MODULE ClassFn ------------------------------
(***************************************************************************)
(* C10: how a chrony tracking report is classified.                        *)
(*   leap status -> class   (clock-bound-d/src/lib.rs  From<u16>)          *)
(*   staleness override     (clock-bound-d/src/shm_writer.rs               *)
(*                           extract_bound_from_tracking)                  *)
(* "S" Synchronized, "F" FreeRunning, "U" Unknown.                         *)
(* refPos: position of the report's reference time                         *)
(*   "future" after now | "fresh" age <= 8 * update interval | "stale" older *)
(***************************************************************************)
EXTENDS Integers

LeapClass(leap) == IF leap \in 0..2 THEN "S" ELSE IF leap = 3 THEN "F" ELSE "U"
Classify(leap, refPos) ==
  IF refPos = "future" THEN "U"
  ELSE IF LeapClass(leap) = "S" /\ refPos = "stale" THEN "F"
  ELSE LeapClass(leap)
RefPos == {"fresh", "stale", "future"}

\* the property, in its own words, for every 16-bit leap status and every reference-time position
C10Statement ==
  \A leap \in 0..65535 : \A p \in RefPos :
    LET c == Classify(leap, p) IN
      /\ (c = "S" <=> (leap \in {0, 1, 2} /\ p = "fresh"))
      /\ ((leap \in {0, 1, 2} /\ p = "stale") => c = "F")
      /\ ((leap = 3 /\ p # "future") => c = "F")
      /\ ((leap > 3 \/ p = "future") => c = "U")
=============================================================================
