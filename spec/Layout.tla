------------------------------- MODULE Layout -------------------------------
(***************************************************************************)
(* docs/PROTOCOL.md "Shared Memory Segment Layout" as data, and the        *)
(* decoding of a raw segment image with it.  This table is the projection  *)
(* function of every segment conformance run (the harness decodes the raw  *)
(* bytes of the backing file at these offsets, never the Rust structs),    *)
(* and the oracle of the layout half of C17: TLC decodes the bytes the     *)
(* real daemon path wrote and compares them with the published fields.     *)
(***************************************************************************)
EXTENDS Big, TLC, Json, IOUtils, Sequences

\* field, byte offset, width in bytes (native = little endian on x86-64 and Graviton)
Fields == <<
  [name |-> "magic0",     off |-> 0,  width |-> 4],
  [name |-> "magic1",     off |-> 4,  width |-> 4],
  [name |-> "segsize",    off |-> 8,  width |-> 4],
  [name |-> "version",    off |-> 12, width |-> 2],
  [name |-> "generation", off |-> 14, width |-> 2],
  [name |-> "asOfSec",    off |-> 16, width |-> 8],
  [name |-> "asOfNsec",   off |-> 24, width |-> 8],
  [name |-> "voidSec",    off |-> 32, width |-> 8],
  [name |-> "voidNsec",   off |-> 40, width |-> 8],
  [name |-> "bound",      off |-> 48, width |-> 8],
  [name |-> "drift",      off |-> 56, width |-> 4],
  [name |-> "reserved",   off |-> 60, width |-> 4],
  [name |-> "status",     off |-> 64, width |-> 4] >>
TotalSize == 72                     \* 68 bytes of fields + 4 of padding
Magic0 == <<78, 90, 77, 65>>        \* 0x414D5A4E, least significant byte first
Magic1 == <<0, 2, 66, 67>>          \* 0x43420200

\* the table is consistent: fields are adjacent, in order, and end at 68
ASSUME \A i \in 1..(Len(Fields) - 1) : Fields[i].off + Fields[i].width = Fields[i + 1].off
ASSUME Fields[Len(Fields)].off + Fields[Len(Fields)].width = 68

\* little-endian bytes (1-based sequence b, offset off, width w) -> natural as limbs
RECURSIVE LE(_, _, _)
LE(b, off, w) == IF w = 0 THEN <<>> ELSE Add(Mul(LE(b, off + 1, w - 1), <<256>>), IF b[off + 1] = 0 THEN <<>> ELSE FromNat(b[off + 1]))
Field(b, name) == LET f == CHOOSE f \in {Fields[i] : i \in 1..Len(Fields)} : f.name = name IN LE(b, f.off, f.width)

Decode(b) == [n \in {Fields[i].name : i \in 1..Len(Fields)} |-> Field(b, n)]

\* ---- oracle run: images recorded from the real writer, with the values that were published
Img == ndJsonDeserialize(IOEnv.IMG)
Matches(v) ==
  LET d == Decode(v.bytes) IN
    /\ Len(v.bytes) = TotalSize
    /\ SubSeq(v.bytes, 1, 4) = Magic0 /\ SubSeq(v.bytes, 5, 8) = Magic1
    /\ d.segsize = FromNat(TotalSize)
    /\ d.version = <<1>>
    /\ d.generation = v.gen
    /\ d.asOfSec = v.asOfSec /\ d.asOfNsec = v.asOfNsec
    /\ d.voidSec = v.voidSec /\ d.voidNsec = v.voidNsec
    /\ d.bound = v.bound /\ d.drift = v.drift /\ d.reserved = v.reserved
    /\ d.status = (IF v.status = 0 THEN <<>> ELSE <<v.status>>)      \* 0 Unknown, 1 Synchronized, 2 FreeRunning
    \* widths of the Rust types that are copied into the segment verbatim (a narrower status type would
    \* leave the upper bytes of the documented i32 to uninitialised padding)
    /\ v.sizeofStatus = (CHOOSE f \in {Fields[i] : i \in 1..Len(Fields)} : f.name = "status").width
    /\ v.sizeofRecord = TotalSize - 16
ASSUME PrintT(<<"CHECKED", Len(Img)>>)
ASSUME PrintT(<<"BADIMG", { Img[i].id : i \in { j \in 1..Len(Img) : ~Matches(Img[j]) } }>>)
ASSUME Len(Img) > 0 => PrintT(<<"SAMPLE", Img[1].id, Decode(Img[1].bytes)>>)

VARIABLE x
Init == x = 0
Next == UNCHANGED x
=============================================================================
