INIT Init
NEXT Next
