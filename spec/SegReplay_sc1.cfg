SPECIFICATION RSpec
CONSTANTS
 SC = TRUE
 W = 2
 GenMod = 65536
 RETRY = 1000000
 Readers <- R1
 MaxPub = 2
 MaxCrash = 0
 MaxInc = 1
 MaxCalls = 1
 StartFiles <- SFone
 WProg <- WPinned
 RProg <- RPinned
VIEW ViewNoSid
CONSTRAINT FewRetries
INVARIANTS NoTorn Monotone
CHECK_DEADLOCK FALSE
