---------------------------- MODULE SeqIndProof ----------------------------
(* TLAPS proof that SeqInd!IndInv is an inductive invariant of SeqInd!Spec (any behaviour length, unbounded integers). *)
EXTENDS SeqInd, TLAPS

Spec == Init /\ [][Next]_vars

LEMMA ReadersDef == Readers = {"r1", "r2"} BY DEF Readers

THEOREM InitInv == Init => IndInv
  BY DEF Init, IndInv, TypeOK, WriterInv, ReaderInv, AcceptOk, CacheOk, ServeOk, IsEven, Readers

THEOREM StepInv == IndInv /\ [Next]_vars => IndInv'
<1> SUFFICES ASSUME IndInv, [Next]_vars PROVE IndInv' OBVIOUS
<1> USE DEF IndInv, TypeOK, WriterInv, ReaderInv, AcceptOk, CacheOk, ServeOk, IsEven, Readers, RU, WU
<1>1 CASE WLoad BY <1>1, Z3T(120) DEF WLoad
<1>2 CASE WOdd BY <1>2, Z3T(120) DEF WOdd
<1>3 CASE WWord1 BY <1>3, Z3T(120) DEF WWord1
<1>4 CASE WWord2 BY <1>4, Z3T(120) DEF WWord2
<1>5 CASE WEven BY <1>5, Z3T(120) DEF WEven
<1>6 CASE WDie BY <1>6, Z3T(120) DEF WDie
<1>7 CASE WRestart BY <1>7, Z3T(120) DEF WRestart
<1>8 ASSUME NEW r \in Readers, RG1(r) PROVE IndInv' BY <1>8, Z3T(120) DEF RG1
<1>9 ASSUME NEW r \in Readers, RD1(r) PROVE IndInv' BY <1>9, Z3T(120) DEF RD1
<1>10 ASSUME NEW r \in Readers, RD2(r) PROVE IndInv' BY <1>10, Z3T(120) DEF RD2
<1>11 ASSUME NEW r \in Readers, RG2(r) PROVE IndInv'
  <2>1 CASE gen = rg1[r] BY <1>11, <2>1, Z3T(120) DEF RG2
  <2>2 CASE gen # rg1[r]
    <3>1 PICK nxt \in {"g1", "idle"} : rpc' = [rpc EXCEPT ![r] = nxt] BY <1>11, <2>2 DEF RG2
    <3>2 rg1' = [rg1 EXCEPT ![r] = IF IsEven(gen) THEN gen ELSE rg1[r]] /\ UNCHANGED <<cgen, cpub, rv1, rv2>> /\ WU BY <1>11, <2>2 DEF RG2
    <3>3 rpc[r] = "d2" BY <1>11 DEF RG2
    <3>4 CASE nxt = "idle" BY <3>1, <3>2, <3>3, <3>4, <2>2, Z3T(120)
    <3>5 CASE nxt = "g1" BY <3>1, <3>2, <3>3, <3>5, <2>2, Z3T(120)
    <3> QED BY <3>1, <3>4, <3>5
  <2> QED BY <2>1, <2>2
<1>12 CASE UNCHANGED vars BY <1>12, Z3T(120) DEF vars
<1> QED BY <1>1, <1>2, <1>3, <1>4, <1>5, <1>6, <1>7, <1>8, <1>9, <1>10, <1>11, <1>12 DEF Next

THEOREM Safety == Spec => [](AcceptOk /\ CacheOk /\ ServeOk)
<1>1 Spec => []IndInv BY InitInv, StepInv, PTL DEF Spec
<1>2 IndInv => (AcceptOk /\ CacheOk /\ ServeOk) BY DEF IndInv
<1> QED BY <1>1, <1>2, PTL
=============================================================================
