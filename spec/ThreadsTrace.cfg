SPECIFICATION TSpec
CONSTANTS
 MaxFail = 1000000
 MaxData = 1000000
 BroadcastPolicy = "all"
 BrokenChannel = "panic"
INVARIANTS NotDone TraceSafety
CHECK_DEADLOCK FALSE
