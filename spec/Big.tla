------------------------------- MODULE Big -------------------------------
(***************************************************************************)
(* Exact integer arithmetic on magnitudes TLC's 32-bit integers cannot     *)
(* hold (nanosecond timestamps, 64-bit bounds).                            *)
(* A natural is a little-endian sequence of base-1000 limbs, <<>> = 0, no  *)
(* trailing zero limbs.  A signed value is [neg, mag] (zero has neg=FALSE).*)
(* JSON carries the same shapes, so recorded 64-bit values travel as limb  *)
(* arrays.  Cross-checked against native arithmetic in MC_big.             *)
(***************************************************************************)
EXTENDS Integers, Sequences
B == 1000
RECURSIVE Norm(_)
Norm(a) == IF a # <<>> /\ a[Len(a)] = 0 THEN Norm(SubSeq(a, 1, Len(a) - 1)) ELSE a
RECURSIVE FromNat(_)
FromNat(n) == IF n = 0 THEN <<>> ELSE <<n % B>> \o FromNat(n \div B)
RECURSIVE ToNat(_)
ToNat(a) == IF a = <<>> THEN 0 ELSE a[1] + B * ToNat(Tail(a))      \* only for values below 2^31
Limb(a, i) == IF i <= Len(a) THEN a[i] ELSE 0
Max(x, y) == IF x > y THEN x ELSE y
RECURSIVE AddC(_, _, _, _)
AddC(a, b, i, c) ==
  IF i > Max(Len(a), Len(b)) THEN (IF c = 0 THEN <<>> ELSE <<c>>)
  ELSE LET s == Limb(a, i) + Limb(b, i) + c IN <<s % B>> \o AddC(a, b, i + 1, s \div B)
Add(a, b) == AddC(a, b, 1, 0)
RECURSIVE CmpFrom(_, _, _)
CmpFrom(a, b, i) == IF i = 0 THEN 0 ELSE IF Limb(a, i) < Limb(b, i) THEN -1 ELSE IF Limb(a, i) > Limb(b, i) THEN 1 ELSE CmpFrom(a, b, i - 1)
Cmp(a, b) == CmpFrom(a, b, Max(Len(a), Len(b)))
Less(a, b) == Cmp(a, b) = -1
Leq(a, b) == Cmp(a, b) # 1
RECURSIVE SubC(_, _, _, _)
SubC(a, b, i, br) ==   \* requires a >= b
  IF i > Len(a) THEN <<>>
  ELSE LET d == Limb(a, i) - Limb(b, i) - br IN
       IF d < 0 THEN <<d + B>> \o SubC(a, b, i + 1, 1) ELSE <<d>> \o SubC(a, b, i + 1, 0)
Sub(a, b) == Norm(SubC(a, b, 1, 0))
RECURSIVE MulLimbC(_, _, _, _)
MulLimbC(a, m, i, c) ==   \* a * m, 0 <= m < B
  IF i > Len(a) THEN (IF c = 0 THEN <<>> ELSE <<c>>)
  ELSE LET p == a[i] * m + c IN <<p % B>> \o MulLimbC(a, m, i + 1, p \div B)
Shift(a, k) == IF a = <<>> THEN <<>> ELSE [j \in 1..k |-> 0] \o a       \* a * 1000^k
RECURSIVE MulFrom(_, _, _)
MulFrom(a, b, j) == IF j > Len(b) THEN <<>> ELSE Add(Shift(Norm(MulLimbC(a, b[j], 1, 0)), j - 1), MulFrom(a, b, j + 1))
Mul(a, b) == Norm(MulFrom(a, b, 1))
DropLimbs(a, k) == IF Len(a) <= k THEN <<>> ELSE SubSeq(a, k + 1, Len(a))     \* floor(a / 1000^k)
LowLimbs(a, k) == Norm(SubSeq(a, 1, IF Len(a) < k THEN Len(a) ELSE k))      \* a mod 1000^k
FromTs(sec, nsec) == Add(Shift(sec, 3), nsec)                                \* sec*10^9 + nsec on limb values
Half2(a) == \* floor(a / 2)
  LET RECURSIVE H(_, _)
      H(i, carry) == IF i = 0 THEN <<>> ELSE LET v == carry * B + a[i] IN H(i - 1, v % 2) \o <<v \div 2>>
  IN Norm(H(Len(a), 0))

\* ---- signed values
S(neg, mag) == [neg |-> neg /\ mag # <<>>, mag |-> mag]
SZero == S(FALSE, <<>>)
SNat(a) == S(FALSE, a)
SNeg(x) == S(~x.neg, x.mag)
SAdd(x, y) ==
  IF x.neg = y.neg THEN S(x.neg, Add(x.mag, y.mag))
  ELSE IF Leq(y.mag, x.mag) THEN S(x.neg, Sub(x.mag, y.mag))
  ELSE S(y.neg, Sub(y.mag, x.mag))
SSub(x, y) == SAdd(x, SNeg(y))
SLess(x, y) ==
  IF x.neg /\ ~y.neg THEN TRUE
  ELSE IF ~x.neg /\ y.neg THEN FALSE
  ELSE IF x.neg THEN Less(y.mag, x.mag) ELSE Less(x.mag, y.mag)
SLeq(x, y) == ~SLess(y, x)
SAbs(x) == x.mag
\* a signed timespec [s, ns] with s a signed value and 0 <= ns < 10^9 (as libc normalises it)
STs(s, ns) == SAdd(S(s.neg, Shift(s.mag, 3)), SNat(ns))
=============================================================================
