SPECIFICATION RSpec
CONSTANTS
 GRACE = 5
 VOID = 1000
 Deltas <- DeltasQ
 Bounds <- BoundsQ
 Reports <- RepQ
 PhcBounds <- PhcQ
 PhcConfigured = TRUE
 Drift = 50000
 MaxPolls = 2
 MaxTicks = 1
 MaxStarts = 1
 PreSyncPolicy = "latch"
VIEW ViewNoSid
INVARIANTS Tracks NoTrustBeforeMeasure PhcRule
CHECK_DEADLOCK FALSE
