SPECIFICATION RSpec
CONSTANTS
 GRACE = 5
 VOID = 1000
 Deltas <- DeltasQ
 Bounds <- BoundsQ
 PhcBounds <- PhcQ
 PhcConfigured = TRUE
 Drift = 50000
 MaxPolls = 2
 MaxTicks = 2
 MaxStarts = 1
 PreSyncPolicy = "latch"
VIEW ViewNoSid
INVARIANTS Tracks NoTrustBeforeMeasure GraceSchedule PhcRule
CHECK_DEADLOCK FALSE
