------------------------------ MODULE OpenTable ------------------------------
(***************************************************************************)
(* C16, first half: the outcome of opening a segment file is the documented *)
(* function (ShmSeg.OpenOutcomeOf) of the file's abstraction.  TLC evaluates *)
(* that function on the abstraction of every concrete file the harness tried *)
(* (abstraction = Layout offsets applied to the raw bytes) and compares it   *)
(* with what ShmReader::new / ClockBoundClient::new_with_path /              *)
(* clockbound_open actually returned.                                        *)
(***************************************************************************)
EXTENDS MC_seg, Json, IOUtils

Files == ndJsonDeserialize(IOEnv.FILES)

\* kind: "missing" | "dir" | "file"
Expected(f) ==
  IF f.kind = "missing" THEN "ENOENT"
  ELSE IF f.kind = "dir" THEN "EISDIR"          \* open succeeds on a directory, the header read fails
  \* mmapfail: the run was made under an address-space limit that makes mapping the declared (huge) size fail:
  \* a header that passes validation then yields the failing system call with its errno
  ELSE IF f.mmapfail /\ OpenOutcomeOf(TRUE, f.len, f.mok, f.size, f.ver, f.gen) = "Ok" THEN "ENOMEM"
  ELSE OpenOutcomeOf(TRUE, f.len, f.mok, f.size, f.ver, f.gen)

ASSUME PrintT(<<"CHECKED", Len(Files)>>)
ASSUME PrintT(<<"BADOPEN", { Files[i].id : i \in { j \in 1..Len(Files) : Expected(Files[j]) # Files[j].got } }>>)
ASSUME \A i \in 1..(IF Len(Files) < 3 THEN Len(Files) ELSE 3) : PrintT(<<"SAMPLE", Files[i].id, Expected(Files[i])>>)
=============================================================================
