INIT Init
NEXT Next
