----------------------------- MODULE E2EReplay -----------------------------
(* Binding R for E2E: every generated transition prints one EDGE line (see SegReplay.tla). *)
(* Exhaustive on small budgets (transition cover), or `-simulate` on larger ones.        *)
EXTENDS E2E, Json

VARIABLE sid
ASSUME TLCSet(1, 1)

Proj == [now |-> now, err |-> err, alive |-> alive, ppc |-> ppc, pAsOf |-> pAsOf, pMsg |-> pMsg, lastGood |-> lastGood,
         seg |-> seg, cache |-> cache, cpc |-> cpc, cRec |-> cRec, cErrAtReal |-> cErrAtReal, cMono |-> cMono, cOut |-> cOut]

Fresh == TLCGet(1)
L(A, name) ==
  /\ A
  /\ sid' = Fresh /\ TLCSet(1, Fresh + 1)
  /\ PrintT(<<"EDGE", ToJson([s |-> sid, d |-> sid', a |-> name, p |-> "E", v |-> 0, exp |-> Proj'])>>)

RInit ==
  /\ Init
  /\ sid = Fresh /\ TLCSet(1, Fresh + 1)
  /\ PrintT(<<"EDGE", ToJson([s |-> 0, d |-> sid, a |-> "Init", p |-> "-", v |-> 0, exp |-> Proj])>>)

RNext ==
  \/ \E d \in Deltas : L(Tick(d), "Tick")
  \/ L(DaemonStart, "DaemonStart") \/ L(DaemonDie, "DaemonDie")
  \/ L(PReadMono, "PReadMono") \/ L(PQuery, "PQuery") \/ L(PDeliver, "PDeliver")
  \/ L(CSnap, "CSnap") \/ L(CReadReal, "CReadReal") \/ L(CReadMono, "CReadMono")
  \/ L(CCompute, "CCompute") \/ L(CDone, "CDone")

RSpec == RInit /\ [][RNext]_<<vars, sid>>
ViewNoSid == vars
=============================================================================
