------------------------------ MODULE DriftFn ------------------------------
(***************************************************************************)
(* C19: --max-drift-rate <ppm> is published as exactly 1000 * ppm ppb      *)
(* (1000 ppb when omitted); a value whose product does not fit the 32-bit  *)
(* field is refused at start-up, never wrapped.                            *)
(* Input (DRF): one daemon start per line:                                 *)
(*   [id, given: BOOLEAN, ppm: limbs, published: BOOLEAN, ppb: limbs,      *)
(*    exit_nonzero: BOOLEAN]                                               *)
(***************************************************************************)
EXTENDS Big, TLC, Json, IOUtils, Sequences
MaxU32 == <<295, 967, 294, 4>>          \* 4 294 967 295
Ppb(v) == IF v.given THEN Shift(v.ppm, 1) ELSE <<0, 1>>      \* ppm * 1000
Representable(v) == Leq(Ppb(v), MaxU32)
Accept(v) ==
  IF Representable(v)
  THEN v.published /\ v.ppb = Ppb(v)
  ELSE ~v.published /\ v.exit_nonzero
Drf == ndJsonDeserialize(IOEnv.DRF)
ASSUME PrintT(<<"CHECKED", Len(Drf)>>)
ASSUME PrintT(<<"BADDRIFT", { Drf[i].id : i \in { j \in 1..Len(Drf) : ~Accept(Drf[j]) } }>>)
ASSUME \A i \in 1..(IF Len(Drf) < 3 THEN Len(Drf) ELSE 3) : PrintT(<<"SAMPLE", Drf[i].id, [representable |-> Representable(Drf[i]), ppb |-> Ppb(Drf[i])]>>)
\* the boundary itself
ASSUME Representable([given |-> TRUE, ppm |-> <<967, 294, 4>>]) /\ ~Representable([given |-> TRUE, ppm |-> <<968, 294, 4>>])
VARIABLE x
Init == x = 0
Next == UNCHANGED x
=============================================================================
