----------------------------- MODULE ClientInt -----------------------------
(***************************************************************************)
(* ClientFn over TLA+ integers, for Apalache (SMT, unbounded integers):    *)
(* the properties of C05, C06 and C14 are decided for ALL records and      *)
(* clock readings in the physically meaningful range, drift symbolic.      *)
(*   apalache-mc check --length=0 --inv=<Inv> ClientInt.tla                *)
(***************************************************************************)
EXTENDS Integers

VARIABLES
  \* @type: Int;
  asOf,
  \* @type: Int;
  voidAfter,
  \* @type: Int;
  bound,
  \* @type: Int;
  drift,
  \* @type: Int;
  st,
  \* @type: Int;
  real,
  \* @type: Int;
  mono,
  \* @type: Int;
  mono2

G == 1000000000
\* @type: (Int, Int) => Int;
IAdd(x, y) == x + y
\* @type: (Int, Int) => Int;
ISub(x, y) == x - y
\* @type: (Int, Int) => Bool;
ILess(x, y) == x < y
\* @type: (Int, Int) => Int;
IMulDivG(x, y) == (x * y) \div G

F == INSTANCE ClientFn WITH Add <- IAdd, Sub <- ISub, Less <- ILess, MulDivG <- IMulDivG,
                            Zero <- 0, GRACE <- 5 * G, BLUR <- 1000, GVAL <- G

\* physically meaningful range: |timestamps| <= 68 years (2^31 s), 0 <= bound < 2^60 ns
Range == 2147483648 * G
MaxBound == 1152921504606846976
Rec == [asOf |-> asOf, voidAfter |-> voidAfter, bound |-> bound, drift |-> drift, status |-> st]

Init ==
  /\ asOf \in Int /\ voidAfter \in Int /\ bound \in Int /\ drift \in Int /\ st \in {0, 1, 2}
  /\ real \in Int /\ mono \in Int /\ mono2 \in Int
  /\ asOf >= 0 /\ asOf <= Range /\ voidAfter >= 0 /\ voidAfter <= Range + 1000 * G
  /\ bound >= 0 /\ bound < MaxBound
  /\ drift >= 0 /\ drift < 4294967296
  /\ mono >= 0 /\ mono <= Range /\ mono2 >= mono /\ mono2 <= Range
  /\ real >= 0 /\ real <= Range
Next == UNCHANGED <<asOf, voidAfter, bound, drift, st, real, mono, mono2>>

R1 == F!Now(Rec, real, mono)
R2 == F!Now(Rec, real, mono2)
H1 == F!HalfWidth(Rec, mono)
H2 == F!HalfWidth(Rec, mono2)

\* ---- C05: centred, wide enough, growing with age
C05Centred == R1.kind = "Ok" => (R1.earliest + R1.latest = 2 * real /\ R1.earliest <= R1.latest)
C05Law == R1.kind = "Ok" =>
   /\ H1 >= bound
   /\ (mono >= asOf => (H1 - bound) * G <= drift * (mono - asOf) /\ drift * (mono - asOf) < (H1 - bound + 1) * G)
   /\ R1.latest - real = H1 /\ real - R1.earliest = H1
C05Monotone == (R1.kind = "Ok" /\ R2.kind = "Ok") => H2 >= H1

\* ---- C06: status never stronger than the record's age justifies; fresh status passed through
C06Status == R1.kind = "Ok" =>
   /\ (R1.status = 1 => (st = 1 /\ mono < asOf + 5 * G))
   /\ (R1.status = 2 => (st \in {1, 2} /\ (mono < voidAfter \/ mono < asOf + 5 * G)))
   /\ (st = 0 => R1.status = 0)
   /\ ((mono >= voidAfter /\ mono >= asOf + 5 * G) => R1.status = 0)
   /\ (mono < asOf + 5 * G => R1.status = st)
\* with a well-formed record (void-after at least 5 s after as-of, as the daemon writes it):
C06Void == (R1.kind = "Ok" /\ voidAfter >= asOf + 5 * G /\ mono >= voidAfter) => R1.status = 0

\* ---- C14: clean failures; no intermediate quantity leaves the 64-bit / TimeSpec range
C14Errors ==
   /\ (drift >= G => R1.kind = "SegmentMalformed")
   /\ ((drift < G /\ mono + 1000 <= asOf) => R1.kind = "CausalityBreach")
   /\ ((drift < G /\ mono + 1000 > asOf) => R1.kind = "Ok")
   /\ ((drift < G /\ mono < asOf /\ mono + 1000 > asOf) => H1 = bound)
MaxI64 == 9223372036854775807
C14Range == R1.kind = "Ok" =>
   /\ H1 >= 0 /\ H1 <= MaxI64
   /\ R1.latest <= MaxI64 /\ R1.earliest >= -MaxI64
   /\ asOf + 5 * G <= MaxI64
   \* f64 path of the code: duration_sec * drift < 2^63
   /\ ((drift * (IF mono >= asOf THEN mono - asOf ELSE 0)) \div G) < MaxI64 - MaxBound

AllInv == C05Centred /\ C05Law /\ C05Monotone /\ C06Status /\ C06Void /\ C14Errors /\ C14Range
=============================================================================
