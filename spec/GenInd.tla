------------------------------- MODULE GenInd -------------------------------
(***************************************************************************)
(* C11 for an UNBOUNDED number of publications, crashes and restarts: the  *)
(* generation protocol as an inductive invariant, discharged by Apalache   *)
(* (all 65536 values symbolic, no bound on the length of the behaviour).   *)
(*   apalache-mc check --init=IndInit --inv=IndInv --length=1 GenInd.tla   *)
(*   apalache-mc check --init=Init    --inv=IndInv --length=0 GenInd.tla   *)
(* State: the generation cell, the writer's pc and local copy, whether an  *)
(* update has been completed since the last (re)initialisation, whether an *)
(* update is unfinished (started and not completed, possibly by a writer   *)
(* that died: "in flight" as a third party sees it).                       *)
(***************************************************************************)
EXTENDS Integers

VARIABLES
  \* @type: Int;
  gen,
  \* @type: Str;
  pc,        \* "idle" | "loaded" | "mid" | "dead_idle" | "dead_mid"
  \* @type: Int;
  loc,       \* the writer's local copy of the generation
  \* @type: Bool;
  published, \* at least one update completed since the segment was last (re)initialised
  \* @type: Bool;
  unfinished \* an update was started (odd store done) and not completed - survives the writer's death

M == 65536
OddOf(g) == IF g % 2 = 0 THEN (g + 1) % M ELSE g
EvenAfter(g) == IF (g + 1) % M = 0 THEN 2 ELSE (g + 1) % M

Init == gen = 0 /\ pc = "idle" /\ loc = 0 /\ published = FALSE /\ unfinished = FALSE    \* freshly wiped segment, writer attached

Load == pc = "idle" /\ loc' = gen /\ pc' = "loaded" /\ UNCHANGED <<gen, published, unfinished>>
StoreOdd == pc = "loaded" /\ gen' = OddOf(loc) /\ loc' = OddOf(loc) /\ pc' = "mid" /\ unfinished' = TRUE /\ UNCHANGED published
StoreEven == pc = "mid" /\ gen' = EvenAfter(loc) /\ loc' = EvenAfter(loc) /\ pc' = "idle" /\ published' = TRUE /\ unfinished' = FALSE
Crash == /\ pc \in {"idle", "loaded", "mid"} /\ pc' = "dead"
         /\ UNCHANGED <<gen, loc, published, unfinished>>
\* a restart takes the segment over in place iff it is usable (generation non-zero), else wipes it
Restart == /\ pc = "dead"
           /\ pc' = "idle" /\ loc' = loc
           /\ gen' = gen                                   \* usable: taken over in place; unusable (0): wiped to 0 again
           /\ published' = (IF gen # 0 THEN published ELSE FALSE)
           /\ unfinished' = (IF gen # 0 THEN unfinished ELSE FALSE)
Next == Load \/ StoreOdd \/ StoreEven \/ Crash \/ Restart

\* C11, as a third-party reader sees the cell
GenProtocol ==
  /\ (published /\ ~unfinished) => (gen % 2 = 0 /\ gen # 0)     \* no update in flight
  /\ unfinished => gen % 2 = 1                                 \* for the whole duration of an update
  /\ published => gen # 0                                      \* never back to 0

\* the inductive strengthening
IndInv ==
  /\ gen \in 0..(M - 1) /\ loc \in 0..(M - 1)
  /\ pc \in {"idle", "loaded", "mid", "dead"}
  /\ GenProtocol
  /\ (pc = "loaded" => loc = gen)
  /\ (pc = "mid" => (loc = gen /\ unfinished))
  /\ (~published /\ ~unfinished) => gen % 2 = 0

IndInit ==
  /\ gen \in 0..(M - 1) /\ loc \in 0..(M - 1)
  /\ pc \in {"idle", "loaded", "mid", "dead"}
  /\ published \in BOOLEAN /\ unfinished \in BOOLEAN
  /\ IndInv
=============================================================================
