------------------------------ MODULE MC_seg ------------------------------
(* Model-checking instances of ShmSeg: start-file sets, reader sets, programs. *)
EXTENDS ShmSeg

Z == Empty
\* the twelve abstract start-file classes of DESIGN.md 4.2
SFmissing   == File(FALSE, 0, FALSE, 0, 0, 0, Z, 0, 0)
SFempty     == File(TRUE, 0, FALSE, 0, 0, 0, Z, 0, 0)
SFgarbage   == File(TRUE, 9, FALSE, 0, 0, 0, Z, 0, 0)
SFhdronly   == File(TRUE, 16, TRUE, 16, 1, 4, Z, 0, 0)
SFwiped     == File(TRUE, 72, TRUE, 72, 0, 0, Z, 0, 0)
SFver1gen0  == File(TRUE, 72, TRUE, 72, 1, 0, Z, 0, 0)
SFfirstpub  == File(TRUE, 72, TRUE, 72, 1, 1, Z, 0, 0)
SFbadmagic  == File(TRUE, 72, FALSE, 72, 1, 4, Full(1), 1, 1)
SFvalid     == File(TRUE, 72, TRUE, 72, 1, 4, Full(1), 1, 1)
SFgen2      == File(TRUE, 72, TRUE, 72, 1, 2, Full(1), 1, 1)      \* right after a daemon's very first publication
SFprewrap   == File(TRUE, 72, TRUE, 72, 1, GenMod - 2, Full(1), 1, 1)
SFmidwrap   == File(TRUE, 72, TRUE, 72, 1, GenMod - 1, Mixed(2, 1), 1, 2)
SFotherver  == File(TRUE, 72, TRUE, 72, 2, 8, Full(1), 1, 1)
SFsmallsize == File(TRUE, 72, TRUE, 40, 1, 4, Full(1), 1, 1)
\* unusable for its magic number only, with a plausible version and generation and a record NOBODY published (9): a
\* wipe that dies half way must not leave this file looking like a segment (the daemon truncates first)
SFjunk      == File(TRUE, 72, FALSE, 72, 1, 4, Full(9), 0, 0)

SFall == { SFmissing, SFempty, SFgarbage, SFhdronly, SFwiped, SFver1gen0, SFfirstpub,
            SFbadmagic, SFvalid, SFgen2, SFprewrap, SFmidwrap, SFotherver, SFsmallsize, SFjunk }
SFcold == { SFmissing, SFempty, SFgarbage, SFhdronly, SFwiped, SFver1gen0, SFbadmagic, SFsmallsize, SFjunk }
SFwarm == { SFfirstpub, SFvalid, SFgen2, SFprewrap, SFmidwrap, SFotherver }
SFra == { SFvalid, SFmidwrap }
SFrp == { SFvalid, SFgen2, SFmidwrap }
SFone == { SFvalid }

\* state constraint of the wrap configuration: no publication while a snapshot() call is in progress
NoPubDuringCall == \A r \in Readers : InCall(r) => wpc = "idle"

R1 == {"r1"}
R2 == {"r1", "r2"}
R3 == {"r1", "r2", "r3"}

\* programs (orderings) - the registered checks take these from the code (binding X);
\* the literals below are the pinned code and the repaired code
WPinned == [load |-> "Acquire", odd |-> "Release", fence |-> "none", even |-> "Release", ver |-> "Relaxed"]
RPinned == [ver |-> "Acquire", g1 |-> "Acquire", fence |-> "none", g2 |-> "Acquire"]
WFenced == [load |-> "Acquire", odd |-> "Release", fence |-> "Release", even |-> "Release", ver |-> "Relaxed"]
RFenced == [ver |-> "Acquire", g1 |-> "Acquire", fence |-> "Acquire", g2 |-> "Acquire"]
=============================================================================
