INIT Init
NEXT Next
