SPECIFICATION Spec
CONSTANTS
 MaxFail = 2
 MaxData = 2
 BroadcastPolicy = "all"
 BrokenChannel = "panic"
INVARIANTS TypeOK NoEarlyExit NoPartialPipeline
PROPERTIES ExitsPromptly
CHECK_DEADLOCK FALSE
