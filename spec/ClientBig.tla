----------------------------- MODULE ClientBig -----------------------------
(***************************************************************************)
(* ClientFn over exact limb arithmetic (Big): TLC is the oracle for the    *)
(* results the real now() returned on concrete 64-bit inputs.              *)
(*                                                                         *)
(* Input: ndjson file named by the environment variable VEC, one call per  *)
(* line: [id, rec: [asOf, voidAfter, bound, drift, status], real, mono,    *)
(* got: [kind, earliest, latest, status]].  Every 64-bit quantity travels  *)
(* as a signed limb value [n: BOOLEAN, m: <<limbs>>] of nanoseconds.       *)
(*                                                                         *)
(* Acceptance (the only tolerance of the numeric checks, assumption A3):   *)
(* the code computes the growth term in f64, the specification exactly.    *)
(*   kind and status: equal.   earliest + latest = 2 real, exactly.        *)
(*   g = (latest - real) - bound must satisfy                              *)
(*      | g * 10^9 - drift * age |  <=  10^9 + drift*age / 10^15 + 1       *)
(*   i.e. "never less, up to 1 ns of truncation" plus the relative error   *)
(*   of two f64 roundings (2^-52 each, 10^-15 > 2^-50 covers them).        *)
(***************************************************************************)
EXTENDS Big, TLC, Json, IOUtils

V(x) == S(x.n, x.m)
BMulDivG(a, b) == SNat(DropLimbs(Mul(a.mag, b.mag), 3))
F == INSTANCE ClientFn WITH Add <- SAdd, Sub <- SSub, Less <- SLess, MulDivG <- BMulDivG,
                            Zero <- SZero, GRACE <- SNat(<<0, 0, 0, 5>>), BLUR <- SNat(<<0, 1>>),
                            GVAL <- SNat(<<0, 0, 0, 1>>)

Vec == ndJsonDeserialize(IOEnv.VEC)

RecOf(v) == [asOf |-> V(v.rec.asOf), voidAfter |-> V(v.rec.voidAfter), bound |-> V(v.rec.bound),
             drift |-> V(v.rec.drift), status |-> v.rec.status]

Within(g, P) ==   \* | g*10^9 - P | <= 10^9 + P/10^15 + 1     (g, P naturals)
  LET gG == Shift(g, 3)
      diff == IF Leq(P, gG) THEN Sub(gG, P) ELSE Sub(P, gG)
      tol == Add(Add(<<0, 0, 0, 1>>, DropLimbs(P, 5)), <<1>>)
  IN Leq(diff, tol)

Exp(v) == F!Now(RecOf(v), V(v.real), V(v.mono))

\* C14: the call fails (or not) exactly as specified
AcceptKind(v) == v.got.kind = Exp(v).kind
\* C06: the status component
AcceptStatus(v) == (Exp(v).kind = "Ok" /\ v.got.kind = "Ok") => v.got.status = Exp(v).status
\* C05: the interval
ErrorKinds == {"SegmentMalformed", "CausalityBreach", "SegmentNotInitialized", "Syscall"}
AcceptInterval(v) ==
  /\ (Exp(v).kind = "Ok" => v.got.kind \in {"Ok"} \cup ErrorKinds)      \* a panic/abort where an interval is due
  /\ (Exp(v).kind = "Ok" /\ v.got.kind = "Ok") =>
    LET rec == RecOf(v)
        real == V(v.real)
        half == SSub(V(v.got.latest), real)
        g == SSub(half, rec.bound)
        P == Mul(F!Dur(rec.asOf, V(v.mono)).mag, rec.drift.mag)
    IN /\ SAdd(V(v.got.earliest), V(v.got.latest)) = SAdd(real, real)
       /\ SLeq(V(v.got.earliest), V(v.got.latest))
       /\ ~g.neg /\ Within(g.mag, P)

Ids(P(_)) == { Vec[i].id : i \in { j \in 1..Len(Vec) : ~P(Vec[j]) } }
ASSUME PrintT(<<"CHECKED", Len(Vec)>>)
ASSUME PrintT(<<"BADKIND", Ids(AcceptKind)>>)
ASSUME PrintT(<<"BADSTATUS", Ids(AcceptStatus)>>)
ASSUME PrintT(<<"BADINTERVAL", Ids(AcceptInterval)>>)
\* the specification's own result for the first vectors, written out as samples
ASSUME \A i \in 1..(IF Len(Vec) < 3 THEN Len(Vec) ELSE 3) :
  PrintT(<<"SAMPLE", Vec[i].id, F!Now(RecOf(Vec[i]), V(Vec[i].real), V(Vec[i].mono))>>)

VARIABLE x
Init == x = 0
Next == UNCHANGED x
=============================================================================
