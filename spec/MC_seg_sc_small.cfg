SPECIFICATION Spec
CONSTANTS
 SC = TRUE
 W = 2
 GenMod = 65536
 RETRY = 2
 Readers <- R2
 MaxPub = 3
 MaxCrash = 1
 MaxInc = 2
 MaxCalls = 2
 StartFiles <- SFall
 WProg <- WPinned
 RProg <- RPinned
INVARIANTS TypeOK NoTorn NoTornCache Monotone CatchUp InPlace NoReaderDuringWipe Repair GenProtocol Bounded NeverBlocked
PROPERTIES GenChanges GenNeverBackToZero
CHECK_DEADLOCK FALSE
