------------------------------- MODULE EnvInd -------------------------------
(***************************************************************************)
(* C01 / C12 for UNBOUNDED time, any number of reports, corrections,       *)
(* freezes and client calls: the error envelope as an inductive invariant, *)
(* discharged by Apalache (integers unbounded, no bound on the behaviour). *)
(*   apalache-mc check --init=Init    --inv=IndInv --length=0 EnvInd.tla   *)
(*   apalache-mc check --init=IndInit --inv=IndInv --length=1 EnvInd.tla   *)
(*                                                                         *)
(* Units as in E2E.tla: time in ticks, error in units of (max drift x one  *)
(* tick), so the clock error moves by at most d units in d ticks.          *)
(*                                                                         *)
(* The envelope:  |err(t)| <= bound + (t - asOf)  for the published record *)
(* from the moment it is published and for as long as the oscillator obeys *)
(* the drift premise - whatever happens to the status (the freeze rule of  *)
(* C08 keeps bound and asOf, so the envelope keeps growing; that is why    *)
(* frozen records stay correct).  It rests on exactly two orderings (C12): *)
(* the poller reads the monotonic clock BEFORE it queries chronyd, and the *)
(* client reads the realtime clock BEFORE the monotonic one.  PollerOrder  *)
(* and ClientOrder make each a switch: with either one swapped the         *)
(* invariant is no longer inductive (the checks run those as controls).    *)
(*                                                                         *)
(* E2E.tla (TLC, bounded, bound to the code by extracted orders, replay    *)
(* and random histories) is the detailed model: daemon death/restart,      *)
(* grace, void-after, statuses. This module is its arithmetic core.        *)
(***************************************************************************)
EXTENDS Integers

CONSTANTS
  \* @type: Str;
  PollerOrder,    \* "mono_first" (the code) | "query_first"
  \* @type: Str;
  ClientOrder     \* "real_first" (the code) | "mono_first"

VARIABLES
  \* @type: Int;
  now,       \* true time
  \* @type: Int;
  err,       \* system clock minus true time
  \* @type: Bool;
  pubd,      \* a measurement has been published
  \* @type: Int;
  bound,     \* published bound
  \* @type: Int;
  asOf,      \* published as-of instant
  \* @type: Str;
  ppc,       \* poller: "idle" | "first" | "second" (one of the two events done / both done)
  \* @type: Int;
  pAsOf,     \* the monotonic reading of this iteration
  \* @type: Int;
  pB,        \* |offset| + dispersion + delay/2 of the report of this iteration
  \* @type: Int;
  pQueryAt,  \* ghost: the instant at which chronyd's report was valid
  \* @type: Str;
  cpc,       \* client: "idle" | "first" | "done"
  \* @type: Int;
  cErrAtReal,\* ghost: clock error at the realtime read (true time = reading - this)
  \* @type: Int;
  cRealAt,   \* ghost: instant of the realtime read
  \* @type: Int;
  cMono,     \* the client's monotonic reading
  \* @type: Int;
  cBound,    \* the record the client works on
  \* @type: Int;
  cAsOf,
  \* @type: Int;
  cHalf      \* half-width of the interval returned

CodeOrders == PollerOrder = "mono_first" /\ ClientOrder = "real_first"         \* what the extraction finds in the code
PollerSwapped == PollerOrder = "query_first" /\ ClientOrder = "real_first"      \* controls
ClientSwapped == PollerOrder = "mono_first" /\ ClientOrder = "mono_first"

Abs(x) == IF x < 0 THEN -x ELSE x

Init ==
  /\ now = 0 /\ err \in Int /\ pubd = FALSE /\ bound = 0 /\ asOf = 0
  /\ ppc = "idle" /\ pAsOf = 0 /\ pB = 0 /\ pQueryAt = 0
  /\ cpc = "idle" /\ cErrAtReal = 0 /\ cRealAt = 0 /\ cMono = 0 /\ cBound = 0 /\ cAsOf = 0 /\ cHalf = 0

WorldU == UNCHANGED <<now, err>>
DaemonU == UNCHANGED <<pubd, bound, asOf, ppc, pAsOf, pB, pQueryAt>>
ClientU == UNCHANGED <<cpc, cErrAtReal, cRealAt, cMono, cBound, cAsOf, cHalf>>

\* ------------------------------------------------------------------ world
\* d ticks pass anywhere (between any two steps of anybody); the error drifts by at most d units
Tick == \E d \in Int, e \in Int :
  /\ d > 0 /\ Abs(e - err) <= d
  /\ now' = now + d /\ err' = e
  /\ DaemonU /\ ClientU
\* chronyd corrects the clock: the error does not grow in magnitude
Correct == \E e \in Int :
  /\ Abs(e) <= Abs(err) /\ err' = e
  /\ UNCHANGED now /\ DaemonU /\ ClientU

\* ------------------------------------------------------------------ daemon (poller iteration + publication)
ReadMono == pAsOf' = now
\* a VALID synchronised report (premise of C01): |err| <= b at the instant of the query
Query == \E b \in Int : b >= Abs(err) /\ pB' = b /\ pQueryAt' = now

PollFirst ==
  /\ ppc = "idle" /\ ppc' = "first"
  /\ IF PollerOrder = "mono_first" THEN ReadMono /\ UNCHANGED <<pB, pQueryAt>> ELSE Query /\ UNCHANGED pAsOf
  /\ UNCHANGED <<pubd, bound, asOf>> /\ WorldU /\ ClientU
PollSecond ==
  /\ ppc = "first" /\ ppc' = "second"
  /\ IF PollerOrder = "mono_first" THEN Query /\ UNCHANGED pAsOf ELSE ReadMono /\ UNCHANGED <<pB, pQueryAt>>
  /\ UNCHANGED <<pubd, bound, asOf>> /\ WorldU /\ ClientU
\* mailbox, updater, segment: the record becomes visible some time later
Publish ==
  /\ ppc = "second" /\ ppc' = "idle"
  /\ pubd' = TRUE /\ bound' = pB /\ asOf' = pAsOf
  /\ UNCHANGED <<pAsOf, pB, pQueryAt>> /\ WorldU /\ ClientU
\* an unsynchronised / stale / missing report: nothing about bound and asOf changes (freeze rule)
Discard ==
  /\ ppc \in {"first", "second"} /\ ppc' = "idle"
  /\ UNCHANGED <<pubd, bound, asOf, pAsOf, pB, pQueryAt>> /\ WorldU /\ ClientU

\* ------------------------------------------------------------------ client (now(): snapshot, two clock reads, interval)
ReadReal == cErrAtReal' = err /\ cRealAt' = now
ReadMonoC == cMono' = now
CallFirst ==
  /\ cpc = "idle" /\ pubd /\ cpc' = "first"
  /\ cBound' = bound /\ cAsOf' = asOf                     \* the snapshot (latest record; an older one is covered by induction)
  /\ IF ClientOrder = "real_first" THEN ReadReal /\ UNCHANGED cMono ELSE ReadMonoC /\ UNCHANGED <<cErrAtReal, cRealAt>>
  /\ UNCHANGED cHalf /\ WorldU /\ DaemonU
CallSecond ==
  /\ cpc = "first" /\ cpc' = "done"
  /\ IF ClientOrder = "real_first"
     THEN ReadMonoC /\ UNCHANGED <<cErrAtReal, cRealAt>> /\ cHalf' = cBound + (now - cAsOf)
     ELSE ReadReal /\ UNCHANGED cMono /\ cHalf' = cBound + (cMono - cAsOf)
  /\ UNCHANGED <<cBound, cAsOf>> /\ WorldU /\ DaemonU
CallReturn ==
  /\ cpc = "done" /\ cpc' = "idle"
  /\ UNCHANGED <<cErrAtReal, cRealAt, cMono, cBound, cAsOf, cHalf>> /\ WorldU /\ DaemonU

Next == Tick \/ Correct \/ PollFirst \/ PollSecond \/ Publish \/ Discard \/ CallFirst \/ CallSecond \/ CallReturn

\* ------------------------------------------------------------------ what is claimed
\* C01: the interval returned contains true time at the instant of the realtime read
\*      (reading - half <= reading - errAtReal <= reading + half)
Containment == cpc = "done" => Abs(cErrAtReal) <= cHalf

\* ------------------------------------------------------------------ the inductive strengthening
Envelope(b, a, t, e) == Abs(e) <= b + (t - a)
IndInv ==
  /\ now >= 0 /\ ppc \in {"idle", "first", "second"} /\ cpc \in {"idle", "first", "done"}
  /\ pubd => (asOf <= now /\ Envelope(bound, asOf, now, err))
  \* the report in flight keeps its own envelope from the instant it was valid; its as-of reading is not later
  /\ (ppc = "second" \/ (ppc = "first" /\ PollerOrder = "query_first")) => (pQueryAt <= now /\ Abs(err) <= pB + (now - pQueryAt))
  /\ (ppc = "second" \/ (ppc = "first" /\ PollerOrder = "mono_first")) => pAsOf <= now
  /\ (ppc = "second" /\ PollerOrder = "mono_first") => pAsOf <= pQueryAt
  \* the record the client holds keeps its envelope; its realtime reading is not later than its monotonic one
  /\ cpc # "idle" => (cAsOf <= now /\ Envelope(cBound, cAsOf, now, err))
  /\ (cpc = "first" /\ ClientOrder = "real_first") => (cRealAt <= now /\ cAsOf <= cRealAt /\ Envelope(cBound, cAsOf, cRealAt, cErrAtReal))
  /\ Containment

IndInit ==
  /\ now \in Int /\ err \in Int /\ pubd \in BOOLEAN /\ bound \in Int /\ asOf \in Int
  /\ ppc \in {"idle", "first", "second"} /\ pAsOf \in Int /\ pB \in Int /\ pQueryAt \in Int
  /\ cpc \in {"idle", "first", "done"} /\ cErrAtReal \in Int /\ cRealAt \in Int /\ cMono \in Int
  /\ cBound \in Int /\ cAsOf \in Int /\ cHalf \in Int
  /\ IndInv
=============================================================================
