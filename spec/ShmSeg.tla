------------------------------ MODULE ShmSeg ------------------------------
(***************************************************************************)
(* The ClockBound shared-memory segment protocol.                          *)
(*                                                                         *)
(*   writer  : clock-bound-shm/src/writer.rs   ShmWriter::new / wipe /     *)
(*             ShmWrite::write, with death at every step and restart       *)
(*   readers : clock-bound-shm/src/reader.rs   ShmReader::new / snapshot   *)
(*   memory  : Mem.tla (view-based release/acquire, SC switch)             *)
(*                                                                         *)
(* One action per shared-memory access or file operation of the code.      *)
(* A record is W words; publication number k writes the value k into every *)
(* word, so a torn record is one whose words differ.                       *)
(*                                                                         *)
(* Serves properties C02 C03 C04 C11 C16 C18.                              *)
(***************************************************************************)
EXTENDS Integers, Sequences, FiniteSets, TLC

CONSTANTS
  SC,          \* memory model switch (Mem)
  W,           \* words per record (2 in exhaustive configurations, 7 in traces)
  GenMod,      \* generation modulus: 65536 wherever the spec is bound to the code
  RETRY,       \* retry budget of snapshot(): 1000000 in the code
  Readers,     \* set of reader names
  MaxPub,      \* bound on publications started (ghost index wk)
  MaxCrash,    \* bound on writer deaths
  MaxInc,      \* bound on writer incarnations
  MaxCalls,    \* bound on snapshot() calls per reader
  StartFiles,  \* set of abstract initial backing files
  WProg,       \* writer orderings [load, odd, fence, even, ver]   (extracted from the code)
  RProg        \* reader orderings [ver, g1, fence, g2]            (extracted from the code)

Words == 1..W
WL(i) == "d" \o ToString(i)
Locs == {"ver", "gen"} \cup {WL(i) : i \in Words}
LocWord(x) == CHOOSE i \in Words : WL(i) = x
Period == GenMod \div 2 - 1        \* number of completed updates after which the generation repeats
HDR == 16                          \* header bytes
SEG == 72                          \* header + record, as laid out by the code

M == INSTANCE Mem

VARIABLES
  \* ---- backing file, as system calls see it
  exists, len, magicOk, size,
  \* ---- mapped cells ver, gen, d1..dW
  hist,
  \* ---- writer process
  wpc,        \* program counter (names the NEXT operation)
  wgen,       \* local variable `gen` of write()
  wk,         \* ghost: index of the publication in flight / last started
  winc,       \* ghost: incarnation number
  crashes,    \* ghost: deaths so far
  wcur, wrel, \* Mem views
  usable,     \* result of the usability probe of this incarnation
  wiped,      \* ghost: this incarnation went through wipe()
  g0,         \* ghost: generation found by the current/last write() at its load
  \* ---- readers
  att,        \* attached (ShmReader::new succeeded)
  rpc, rcur, racq,
  g1,         \* local first_gen
  snap,       \* local snapshot being copied
  wi,         \* next word to copy
  retries,
  cacheGen, cacheRec,      \* snapshot_gen / snapshot_ceb
  ret, retKind,            \* result of the last call: record and "cache"/"fresh"/"error"/"none"
  calls, openRes,
  \* ---- ghosts for the properties
  pubDone,    \* index of the last completed publication present in the file
  quiet,      \* per reader: no update was in flight at call start and the writer stored nothing since
  prevIdx,    \* per reader: index returned by its previous call
  steps       \* per reader: shared accesses performed by the current call

fvars == <<exists, len, magicOk, size>>
wvars == <<wpc, wgen, wk, winc, crashes, wcur, wrel, usable, wiped, g0>>
rvars == <<att, rpc, rcur, racq, g1, snap, wi, retries, cacheGen, cacheRec, ret, retKind, calls, openRes>>
gvars == <<pubDone, quiet, prevIdx, steps>>
vars  == <<fvars, hist, wvars, rvars, gvars>>

Top(x) == M!Top(hist, x)
Empty == [i \in Words |-> 0]
Full(k) == [i \in Words |-> k]
Mixed(a, b) == [i \in Words |-> IF i = 1 THEN a ELSE b]   \* first word of publication a, rest of b
Uniform(rec) == \A i \in Words : rec[i] = rec[1]
InFlight == Top("gen") % 2 = 1 \/ Top("gen") = 0 \/ Top("ver") = 0

\* ------------------------------------------------------------------ start files
\* [exists, len, magicOk, size, ver, gen, words, done, k]
\*   done = index of the completed publication the file carries (0 none), k = last started
File(e, l, m, s, v, g, ws, d, k) ==
  [exists |-> e, len |-> l, magicOk |-> m, size |-> s, ver |-> v, gen |-> g, words |-> ws, done |-> d, k |-> k]

\* the complete initial state for start file f, as a record (also used by the trace spec's Reset)
IV(f) ==
  [exists |-> f.exists, len |-> f.len, magicOk |-> f.magicOk, size |-> f.size,
   hist |-> M!InitHist([x \in Locs |-> IF x = "ver" THEN f.ver ELSE IF x = "gen" THEN f.gen
                                              ELSE f.words[LocWord(x)]]),
   pubDone |-> f.done, wk |-> f.k,
   wpc |-> "dead", wgen |-> 0, winc |-> 0, crashes |-> 0, g0 |-> 0,
   wcur |-> M!One, wrel |-> [x \in Locs |-> M!One], usable |-> FALSE, wiped |-> FALSE,
   att |-> [r \in Readers |-> FALSE], rpc |-> [r \in Readers |-> "idle"],
   rcur |-> [r \in Readers |-> M!One], racq |-> [r \in Readers |-> M!One],
   g1 |-> [r \in Readers |-> 0], snap |-> [r \in Readers |-> Empty], wi |-> [r \in Readers |-> 1],
   retries |-> [r \in Readers |-> 0],
   cacheGen |-> [r \in Readers |-> 0], cacheRec |-> [r \in Readers |-> Empty],
   ret |-> [r \in Readers |-> Empty], retKind |-> [r \in Readers |-> "none"],
   calls |-> [r \in Readers |-> 0], openRes |-> [r \in Readers |-> "none"],
   quiet |-> [r \in Readers |-> FALSE], prevIdx |-> [r \in Readers |-> 0], steps |-> [r \in Readers |-> 0]]

Init ==
  \E f \in StartFiles : LET v == IV(f) IN
    /\ exists = v.exists /\ len = v.len /\ magicOk = v.magicOk /\ size = v.size /\ hist = v.hist
    /\ pubDone = v.pubDone /\ wk = v.wk
    /\ wpc = v.wpc /\ wgen = v.wgen /\ winc = v.winc /\ crashes = v.crashes /\ g0 = v.g0
    /\ wcur = v.wcur /\ wrel = v.wrel /\ usable = v.usable /\ wiped = v.wiped
    /\ att = v.att /\ rpc = v.rpc /\ rcur = v.rcur /\ racq = v.racq
    /\ g1 = v.g1 /\ snap = v.snap /\ wi = v.wi /\ retries = v.retries
    /\ cacheGen = v.cacheGen /\ cacheRec = v.cacheRec /\ ret = v.ret /\ retKind = v.retKind
    /\ calls = v.calls /\ openRes = v.openRes
    /\ quiet = v.quiet /\ prevIdx = v.prevIdx /\ steps = v.steps

\* a whole new world (trace validation concatenates independent runs)
ResetTo(f) ==
  LET v == IV(f) IN
    /\ exists' = v.exists /\ len' = v.len /\ magicOk' = v.magicOk /\ size' = v.size /\ hist' = v.hist
    /\ pubDone' = v.pubDone /\ wk' = v.wk
    /\ wpc' = v.wpc /\ wgen' = v.wgen /\ winc' = v.winc /\ crashes' = v.crashes /\ g0' = v.g0
    /\ wcur' = v.wcur /\ wrel' = v.wrel /\ usable' = v.usable /\ wiped' = v.wiped
    /\ att' = v.att /\ rpc' = v.rpc /\ rcur' = v.rcur /\ racq' = v.racq
    /\ g1' = v.g1 /\ snap' = v.snap /\ wi' = v.wi /\ retries' = v.retries
    /\ cacheGen' = v.cacheGen /\ cacheRec' = v.cacheRec /\ ret' = v.ret /\ retKind' = v.retKind
    /\ calls' = v.calls /\ openRes' = v.openRes
    /\ quiet' = v.quiet /\ prevIdx' = v.prevIdx /\ steps' = v.steps

\* ------------------------------------------------------------------ ShmReader::new on the current file
\* (reader.rs FdGuard::new, shm_header.rs ShmHeader::read / is_valid, reader.rs size check)
OpenOutcomeOf(e, l, mOk, sz, v, g) ==
  IF ~e THEN "ENOENT"
  ELSE IF l < HDR THEN "NotInitialized"          \* short read
  ELSE IF ~mOk THEN "NotInitialized"
  ELSE IF v = 0 THEN "NotInitialized"
  ELSE IF g = 0 THEN "NotInitialized"
  ELSE IF sz < HDR THEN "Malformed"              \* is_well_formed
  ELSE IF sz < SEG THEN "Malformed"              \* ShmReader::new size check
  ELSE "Ok"
OpenOutcome == OpenOutcomeOf(exists, len, magicOk, size, Top("ver"), Top("gen"))

\* ------------------------------------------------------------------ writer
RU == UNCHANGED rvars
GU == UNCHANGED <<pubDone, prevIdx, steps>>
QuietOff == quiet' = [r \in Readers |-> FALSE]
WPcs == {"dead", "probe", "create", "magic0", "magic1", "size", "version", "generation", "body",
         "sync", "mmap", "ver1", "idle", "odd", "wfence", "even"} \cup {"w" \o ToString(i) : i \in Words}
WipePcs == {"magic0", "magic1", "size", "version", "generation", "body", "sync"}

WStore(x, v, ord) ==
  LET s == M!Store(hist, wcur, wrel, x, v, ord) IN
    hist' = s.hist /\ wcur' = s.cur /\ wrel' = s.rel

\* process start: ShmWriter::new is entered
WRestart ==
  /\ wpc = "dead" /\ winc < MaxInc
  /\ winc' = winc + 1 /\ wpc' = "probe" /\ wiped' = FALSE
  /\ wcur' = M!SyncView(hist) /\ wrel' = [x \in Locs |-> M!SyncView(hist)]
  /\ UNCHANGED <<wgen, wk, crashes, usable, g0, hist, fvars, quiet>> /\ RU /\ GU

\* process death, at any point
WCrash ==
  /\ wpc # "dead" /\ crashes < MaxCrash
  /\ wpc' = "dead" /\ crashes' = crashes + 1
  /\ UNCHANGED <<wgen, wk, winc, wcur, wrel, usable, wiped, g0, hist, fvars, quiet>> /\ RU /\ GU

\* is_usable_segment(): ShmReader::new by the writer itself
WProbe ==
  /\ wpc = "probe"
  /\ usable' = (OpenOutcome = "Ok")
  /\ wpc' = IF OpenOutcome = "Ok" THEN "mmap" ELSE "create"
  /\ UNCHANGED <<wgen, wk, winc, crashes, wcur, wrel, wiped, g0, hist, fvars, quiet>> /\ RU /\ GU

\* wipe(): File::create - create or truncate to length 0
WCreate ==
  /\ wpc = "create"
  /\ exists' = TRUE /\ len' = 0 /\ magicOk' = FALSE /\ size' = 0
  /\ hist' = M!ZeroAll(hist)
  /\ wcur' = M!SyncView(hist') /\ wrel' = [x \in Locs |-> M!SyncView(hist')]
  /\ wiped' = TRUE /\ wpc' = "magic0" /\ QuietOff /\ pubDone' = 0
  /\ UNCHANGED <<wgen, wk, winc, crashes, usable, g0, prevIdx, steps>> /\ RU

\* wipe(): the sequential writes of the header fields and the zero body
WFileWrite(from, to, l) ==
  /\ wpc = from /\ len' = l /\ wpc' = to
  /\ magicOk' = (l >= 8) /\ size' = IF l >= 12 THEN SEG ELSE 0
  /\ UNCHANGED <<exists, hist, wgen, wk, winc, crashes, wcur, wrel, usable, wiped, g0, quiet>> /\ RU /\ GU
WMagic0 == WFileWrite("magic0", "magic1", 4)
WMagic1 == WFileWrite("magic1", "size", 8)
WSize == WFileWrite("size", "version", 12)
WVersion0 == WFileWrite("version", "generation", 14)      \* version 0
WGeneration0 == WFileWrite("generation", "body", 16)      \* generation 0
WBody == WFileWrite("body", "sync", SEG)
WSkip(from, to) ==
  /\ wpc = from /\ wpc' = to
  /\ UNCHANGED <<fvars, hist, wgen, wk, winc, crashes, wcur, wrel, usable, wiped, g0, quiet>> /\ RU /\ GU
WSync == WSkip("sync", "mmap")
WMmap == WSkip("mmap", "ver1")

\* new(): version.store(1, Relaxed)
WVer1 ==
  /\ wpc = "ver1" /\ WStore("ver", 1, WProg.ver) /\ wpc' = "idle" /\ QuietOff
  /\ UNCHANGED <<fvars, wgen, wk, winc, crashes, usable, wiped, g0>> /\ RU /\ GU

\* write(): generation.load
WLoadGen ==
  /\ wpc = "idle" /\ wk < MaxPub
  /\ wgen' = Top("gen") /\ g0' = Top("gen")     \* single writer: its own view is the top
  /\ wk' = wk + 1 /\ wpc' = "odd"
  /\ UNCHANGED <<fvars, hist, winc, crashes, wcur, wrel, usable, wiped, quiet>> /\ RU /\ GU

OddOf(g) == IF g % 2 = 0 THEN (g + 1) % GenMod ELSE g
EvenAfter(g) == LET n == (g + 1) % GenMod IN IF n = 0 THEN 2 ELSE n

\* write(): generation.store(odd)
WOdd ==
  /\ wpc = "odd"
  /\ WStore("gen", OddOf(wgen), WProg.odd) /\ wgen' = OddOf(wgen)
  /\ wpc' = (IF WProg.fence # "none" THEN "wfence" ELSE "w1") /\ QuietOff
  /\ UNCHANGED <<fvars, wk, winc, crashes, usable, wiped, g0>> /\ RU /\ GU

\* write(): fence(Release) between the odd store and the record copy (when the code has one)
WFenceStep ==
  /\ wpc = "wfence" /\ wrel' = M!FenceRelease(wcur, wrel) /\ wpc' = "w1"
  /\ UNCHANGED <<fvars, hist, wgen, wk, winc, crashes, wcur, usable, wiped, g0, quiet>> /\ RU /\ GU

\* write(): the non-atomic record copy, word by word
WWord(i) ==
  /\ wpc = "w" \o ToString(i) /\ WStore(WL(i), wk, "Relaxed")
  /\ wpc' = (IF i = W THEN "even" ELSE "w" \o ToString(i + 1)) /\ QuietOff
  /\ UNCHANGED <<fvars, wgen, wk, winc, crashes, usable, wiped, g0>> /\ RU /\ GU

\* write(): generation.store(next even, skipping 0)
WEven ==
  /\ wpc = "even"
  /\ WStore("gen", EvenAfter(wgen), WProg.even) /\ wgen' = EvenAfter(wgen)
  /\ wpc' = "idle" /\ pubDone' = wk /\ QuietOff
  /\ UNCHANGED <<fvars, wk, winc, crashes, usable, wiped, g0, prevIdx, steps>> /\ RU

WriterNext ==
  \/ WRestart \/ WCrash \/ WProbe \/ WCreate
  \/ WMagic0 \/ WMagic1 \/ WSize \/ WVersion0 \/ WGeneration0 \/ WBody \/ WSync \/ WMmap \/ WVer1
  \/ WLoadGen \/ WOdd \/ WFenceStep \/ (\E i \in Words : WWord(i)) \/ WEven

\* ------------------------------------------------------------------ readers
WU == UNCHANGED <<wvars, fvars, hist>>

\* thread r loads message i of x
RLoad(r, x, i, ord) ==
  LET l == M!Load(hist, rcur[r], racq[r], x, i, ord) IN
    rcur' = [rcur EXCEPT ![r] = l.cur] /\ racq' = [racq EXCEPT ![r] = l.acq]
Readable(r, x) == M!Readable(hist, rcur[r], x)

\* ShmReader::new: open, read header, validate, mmap. Only the header read observes the file, and
\* a file never disappears, so the outcome is OpenOutcome at one instant.
ROpen(r) ==
  /\ ~att[r] /\ rpc[r] = "idle" /\ openRes[r] # "Ok"
  /\ openRes' = [openRes EXCEPT ![r] = OpenOutcome]
  /\ att' = [att EXCEPT ![r] = (OpenOutcome = "Ok")]
  /\ rcur' = [rcur EXCEPT ![r] = M!SyncView(hist)] /\ racq' = [racq EXCEPT ![r] = M!SyncView(hist)]
  /\ UNCHANGED <<rpc, g1, snap, wi, retries, cacheGen, cacheRec, ret, retKind, calls>>
  /\ WU /\ UNCHANGED gvars

Return(r, kind, rec) ==
  /\ ret' = [ret EXCEPT ![r] = rec] /\ retKind' = [retKind EXCEPT ![r] = kind]
  /\ rpc' = [rpc EXCEPT ![r] = "done"]

\* snapshot() is entered
RCall(r) ==
  /\ att[r] /\ rpc[r] = "idle" /\ calls[r] < MaxCalls
  /\ calls' = [calls EXCEPT ![r] = @ + 1]
  /\ rpc' = [rpc EXCEPT ![r] = "ver"]
  /\ quiet' = [quiet EXCEPT ![r] = ~InFlight]
  /\ steps' = [steps EXCEPT ![r] = 0]
  /\ prevIdx' = [prevIdx EXCEPT ![r] = ret[r][1]]
  /\ UNCHANGED <<att, rcur, racq, g1, snap, wi, retries, cacheGen, cacheRec, ret, retKind, openRes, pubDone>> /\ WU

Step(r) == steps' = [steps EXCEPT ![r] = @ + 1]

\* version.load: 0 => serve the cache
RVerI(r, i) ==
  /\ rpc[r] = "ver" /\ i \in Readable(r, "ver")
  /\ RLoad(r, "ver", i, RProg.ver)
  /\ IF hist["ver"][i].val = 0
     THEN Return(r, "cache", cacheRec[r])
     ELSE rpc' = [rpc EXCEPT ![r] = "g1"] /\ UNCHANGED <<ret, retKind>>
  /\ Step(r)
  /\ UNCHANGED <<att, g1, snap, wi, retries, cacheGen, cacheRec, calls, openRes, pubDone, quiet, prevIdx>> /\ WU
RVer(r) == \E i \in 1..Len(hist["ver"]) : RVerI(r, i)

\* first generation.load: 0, unchanged or odd => serve the cache
RG1I(r, i) ==
  /\ rpc[r] = "g1" /\ i \in Readable(r, "gen")
  /\ RLoad(r, "gen", i, RProg.g1)
  /\ LET g == hist["gen"][i].val IN
       IF g = 0 \/ g = cacheGen[r] \/ g % 2 = 1
       THEN Return(r, "cache", cacheRec[r]) /\ UNCHANGED <<g1, retries, wi>>
       ELSE /\ g1' = [g1 EXCEPT ![r] = g] /\ retries' = [retries EXCEPT ![r] = RETRY]
            /\ wi' = [wi EXCEPT ![r] = 1]
            /\ rpc' = [rpc EXCEPT ![r] = "rd"] /\ UNCHANGED <<ret, retKind>>
  /\ Step(r)
  /\ UNCHANGED <<att, snap, cacheGen, cacheRec, calls, openRes, pubDone, quiet, prevIdx>> /\ WU
RG1(r) == \E i \in 1..Len(hist["gen"]) : RG1I(r, i)

\* the non-atomic record copy, word by word
RWordI(r, i) ==
  /\ rpc[r] = "rd" /\ i \in Readable(r, WL(wi[r]))
  /\ RLoad(r, WL(wi[r]), i, "Relaxed")
  /\ snap' = [snap EXCEPT ![r][wi[r]] = hist[WL(wi[r])][i].val]
  /\ IF wi[r] = W
     THEN rpc' = [rpc EXCEPT ![r] = IF RProg.fence # "none" THEN "rfence" ELSE "g2"] /\ UNCHANGED wi
     ELSE wi' = [wi EXCEPT ![r] = @ + 1] /\ UNCHANGED rpc
  /\ Step(r)
  /\ UNCHANGED <<att, g1, retries, cacheGen, cacheRec, ret, retKind, calls, openRes, pubDone, quiet, prevIdx>> /\ WU
RWord(r) == \E i \in 1..Len(hist[WL(wi[r])]) : RWordI(r, i)

\* fence(Acquire) between the record copy and the second generation load (when the code has one)
RFenceStep(r) ==
  /\ rpc[r] = "rfence"
  /\ rcur' = [rcur EXCEPT ![r] = M!FenceAcquire(rcur[r], racq[r])]
  /\ rpc' = [rpc EXCEPT ![r] = "g2"]
  /\ UNCHANGED <<att, racq, g1, snap, wi, retries, cacheGen, cacheRec, ret, retKind, calls, openRes>> /\ WU /\ UNCHANGED gvars

\* second generation.load: equal => accept and cache; else follow even values only, retry
RG2I(r, i) ==
  /\ rpc[r] = "g2" /\ i \in Readable(r, "gen")
  /\ RLoad(r, "gen", i, RProg.g2)
  /\ LET g == hist["gen"][i].val IN
       IF g = g1[r]
       THEN /\ cacheGen' = [cacheGen EXCEPT ![r] = g1[r]]
            /\ cacheRec' = [cacheRec EXCEPT ![r] = snap[r]]
            /\ Return(r, "fresh", snap[r])
            /\ UNCHANGED <<g1, retries, wi>>
       ELSE /\ g1' = [g1 EXCEPT ![r] = IF g % 2 = 0 THEN g ELSE @]
            /\ retries' = [retries EXCEPT ![r] = @ - 1]
            /\ wi' = [wi EXCEPT ![r] = 1]
            /\ IF retries[r] - 1 > 0
               THEN rpc' = [rpc EXCEPT ![r] = "rd"] /\ UNCHANGED <<ret, retKind>>
               ELSE /\ retKind' = [retKind EXCEPT ![r] = "error"] /\ rpc' = [rpc EXCEPT ![r] = "done"]
                    /\ UNCHANGED ret
            /\ UNCHANGED <<cacheGen, cacheRec>>
  /\ Step(r)
  /\ UNCHANGED <<att, snap, calls, openRes, pubDone, quiet, prevIdx>> /\ WU
RG2(r) == \E i \in 1..Len(hist["gen"]) : RG2I(r, i)

\* stutter compression for traces: n consecutive failing iterations of the retry loop while the
\* writer is stalled in the middle of an update (generation odd, hence never adopted as first_gen)
RSpin(r, n) ==
  /\ SC /\ rpc[r] = "rd" /\ wi[r] = 1 /\ n \in 1..retries[r]
  /\ Top("gen") % 2 = 1
  /\ retries' = [retries EXCEPT ![r] = @ - n]
  /\ steps' = [steps EXCEPT ![r] = @ + n * (W + 1)]
  /\ snap' = [snap EXCEPT ![r] = [i \in Words |-> Top(WL(i))]]
  /\ IF retries[r] - n > 0
     THEN UNCHANGED <<rpc, retKind>>
     ELSE rpc' = [rpc EXCEPT ![r] = "done"] /\ retKind' = [retKind EXCEPT ![r] = "error"]
  /\ UNCHANGED <<att, rcur, racq, g1, wi, cacheGen, cacheRec, ret, calls, openRes, pubDone, quiet, prevIdx>> /\ WU

\* the call has returned to its caller
RDone(r) ==
  /\ rpc[r] = "done" /\ rpc' = [rpc EXCEPT ![r] = "idle"]
  /\ UNCHANGED <<att, rcur, racq, g1, snap, wi, retries, cacheGen, cacheRec, ret, retKind, calls, openRes>> /\ WU /\ UNCHANGED gvars

\* steps of a call in progress (not its start)
ReaderStep(r) == RVer(r) \/ RG1(r) \/ RWord(r) \/ RFenceStep(r) \/ RG2(r) \/ RDone(r)
ReaderNext == \E r \in Readers : ROpen(r) \/ RCall(r) \/ ReaderStep(r)

Next == WriterNext \/ ReaderNext
Spec == Init /\ [][Next]_vars
\* fairness for readers only: the writer may stall or die anywhere, or publish forever
LiveSpec == Spec /\ \A r \in Readers : WF_vars(ReaderStep(r))

\* ------------------------------------------------------------------ properties
Returned(r) == rpc[r] = "done" /\ retKind[r] \in {"cache", "fresh"}
InCall(r) == rpc[r] \notin {"idle", "done"}

TypeOK ==
  /\ wpc \in WPcs /\ len \in 0..SEG /\ wk \in 0..MaxPub /\ pubDone \in 0..MaxPub
  /\ \A r \in Readers : rpc[r] \in {"idle", "ver", "g1", "rd", "rfence", "g2", "done"}
  /\ \A r \in Readers : retKind[r] \in {"none", "cache", "fresh", "error"}

\* C02: every returned record is the empty record or one complete publication
NoTorn == \A r \in Readers : Returned(r) => Uniform(ret[r])
\* ... and also what the reader keeps as its cache
NoTornCache == \A r \in Readers : Uniform(cacheRec[r])

\* C03a: a later call never returns an older record than an earlier call did
Monotone == \A r \in Readers : Returned(r) => ret[r][1] >= prevIdx[r]

\* linearizability of the snapshot (what E2E.tla's abstract segment assumes): a record accepted by the second
\* generation load is, at that very step, the latest completed publication (sequentially consistent memory)
FreshIsLatest == [][\A r \in Readers : (rpc[r] = "g2" /\ rpc'[r] = "done" /\ retKind'[r] = "fresh") => ret'[r] = Full(pubDone)]_vars

\* C03b (sequentially consistent memory): a call during which no update was in flight returns the
\* latest completed publication; documented exception: cached generation coincides with the live one
CatchUp == \A r \in Readers : (Returned(r) /\ quiet[r]) =>
              \/ ret[r] = Full(pubDone)
              \/ (retKind[r] = "cache" /\ cacheGen[r] = Top("gen") /\ ret[r] # Full(pubDone))
\* the exception is only ever taken after an exact multiple of Period completed updates
CoincidenceOnlyAtPeriod == \A r \in Readers : (Returned(r) /\ quiet[r] /\ ret[r] # Full(pubDone)) =>
              (pubDone - ret[r][1]) % Period = 0

\* C04c: a wipe happens only after a probe that found the file unusable ...
InPlace == wiped => ~usable
\* ... hence never under an attached reader
NoReaderDuringWipe == (wpc \in WipePcs) => \A r \in Readers : ~att[r]
\* C04d/C16: after start-up and one completed publication new clients can attach
Repair == (wpc = "idle" /\ winc >= 1 /\ pubDone >= 1 /\ wk = pubDone) => OpenOutcome = "Ok"

\* C11: what a third-party reader sees in the generation field
GenProtocol ==
  /\ (wpc = "idle" /\ winc >= 1 /\ pubDone >= 1 /\ wk = pubDone) => (Top("gen") % 2 = 0 /\ Top("gen") # 0)
  /\ (wpc \in ({"wfence", "even"} \cup {"w" \o ToString(i) : i \in Words})) => Top("gen") % 2 = 1
GenChanges == [][(wpc = "even" /\ wpc' = "idle") => (Top("gen")' # g0 /\ Top("gen")' % 2 = 0 /\ Top("gen")' # 0)]_vars
GenNeverBackToZero == [][(Top("gen")' = 0) => (Top("gen") = 0 \/ wpc = "create")]_vars

\* C18: bounded work per call; no reader step ever waits for the writer
Bounded == \A r \in Readers : steps[r] <= 2 + (W + 1) * RETRY
NeverBlocked == \A r \in Readers : InCall(r) => ENABLED ReaderStep(r)
Terminates == \A r \in Readers : [](InCall(r) => <>(rpc[r] = "done"))
=============================================================================
