---------------------------- MODULE SegReplay ----------------------------
(***************************************************************************)
(* Binding R for ShmSeg: the same specification, every action wrapped so    *)
(* that each GENERATED transition prints one line                          *)
(*   EDGE {s: id of source, d: fresh id, a: action, p: process, v: arg,    *)
(*         exp: projected state after the step}.                           *)
(* sid is hidden from the state graph by VIEW, so the graph is that of the *)
(* plain spec.  A state keeps the id of its first discovery; the printed   *)
(* edges therefore form the BFS tree plus one dangling edge per non-tree   *)
(* transition, and the root-to-dangling-end paths are a transition cover   *)
(* (every edge of the state graph is on one).  Needs -workers 1.           *)
(* In -simulate mode the same lines are random behaviours.                 *)
(***************************************************************************)
EXTENDS MC_seg, Json

VARIABLE sid      \* id of the state as first generated (hidden by VIEW; TLC register 1 is the counter)
ASSUME TLCSet(1, 1)

RIds == Readers
Proj ==
  [ex |-> exists, len |-> len, mok |-> magicOk, size |-> size,
   ver |-> Top("ver"), gen |-> Top("gen"), w |-> [i \in Words |-> Top(WL(i))],
   wpc |-> wpc, wk |-> wk, done |-> pubDone,
   r |-> [r \in RIds |-> [pc |-> rpc[r], k |-> retKind[r], rec |-> ret[r], open |-> openRes[r],
                           st |-> steps[r], q |-> quiet[r]]]]

Fresh == TLCGet(1)
L(A, name, p, arg) ==
  /\ A
  /\ sid' = Fresh /\ TLCSet(1, Fresh + 1)
  /\ PrintT(<<"EDGE", ToJson([s |-> sid, d |-> sid', a |-> name, p |-> p, v |-> arg, exp |-> Proj'])>>)

RInit ==
  /\ Init
  /\ sid = Fresh /\ TLCSet(1, Fresh + 1)
  /\ PrintT(<<"EDGE", ToJson([s |-> 0, d |-> sid, a |-> "Init", p |-> "-", v |-> 0, exp |-> Proj])>>)

RNext ==
  \/ L(WRestart, "WRestart", "W", 0) \/ L(WCrash, "WCrash", "W", 0)
  \/ L(WProbe, "WProbe", "W", 0) \/ L(WCreate, "WCreate", "W", 0)
  \/ L(WMagic0, "WMagic0", "W", 0) \/ L(WMagic1, "WMagic1", "W", 0) \/ L(WSize, "WSize", "W", 0)
  \/ L(WVersion0, "WVersion0", "W", 0) \/ L(WGeneration0, "WGeneration0", "W", 0)
  \/ L(WBody, "WBody", "W", 0) \/ L(WSync, "WSync", "W", 0) \/ L(WMmap, "WMmap", "W", 0)
  \/ L(WVer1, "WVer1", "W", 1)
  \/ L(WLoadGen, "WLoadGen", "W", Top("gen")) \/ L(WOdd, "WOdd", "W", OddOf(wgen))
  \/ L(WFenceStep, "WFence", "W", 0)
  \/ (\E i \in Words : L(WWord(i), "WWord", "W", i))
  \/ L(WEven, "WEven", "W", EvenAfter(wgen))
  \/ \E r \in Readers :
       \/ L(ROpen(r), "ROpen", r, 0) \/ L(RCall(r), "RCall", r, 0)
       \/ (\E i \in 1..Len(hist["ver"]) : L(RVerI(r, i), "RVer", r, hist["ver"][i].val))
       \/ (\E i \in 1..Len(hist["gen"]) : L(RG1I(r, i), "RG1", r, hist["gen"][i].val))
       \/ (\E i \in 1..Len(hist[WL(wi[r])]) : L(RWordI(r, i), "RWord", r, hist[WL(wi[r])][i].val))
       \/ L(RFenceStep(r), "RFence", r, 0)
       \/ (\E i \in 1..Len(hist["gen"]) : L(RG2I(r, i), "RG2", r, hist["gen"][i].val))
       \/ L(RDone(r), "RDone", r, 0)

RSpec == RInit /\ [][RNext]_<<vars, sid>>

ViewNoSid == vars
\* generator-only: the real retry budget makes a spinning reader a 10^6-state path; the spin
\* itself is covered by the stalled-writer exploration, so cut after 3 fruitless retries
FewRetries == \A r \in Readers : rpc[r] \in {"rd", "g2", "rfence"} => retries[r] >= RETRY - 3
=============================================================================
