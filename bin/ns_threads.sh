#!/bin/bash
# ns_threads.sh <threads-binary> <args...> : run inside `unshare -m` with a private tmpfs over /run
BIN="$1"; shift
mount -t tmpfs tmpfs /run || { echo '{"error":"mount"}'; exit 0; }
mkdir -p /run/chrony; touch /run/.cbverif_private
exec "$BIN" "$@"
