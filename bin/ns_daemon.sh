#!/bin/bash
# ns_daemon.sh <clockbound-binary> <seconds> <outfile> [daemon args...]
# Runs inside `unshare -m`: private tmpfs over /run, starts the real daemon, samples the segment, reports JSON.
BIN="$1"; SECS="$2"; OUT="$3"; shift 3
mount -t tmpfs tmpfs /run || { echo '{"error":"mount"}' > "$OUT"; exit 0; }
mkdir -p /run/chrony
"$BIN" "$@" > /run/daemon.log 2>&1 &
PID=$!
python3 - "$PID" "$SECS" "$OUT" <<'PY'
import sys, time, os, struct, json
pid, secs, out = int(sys.argv[1]), float(sys.argv[2]), sys.argv[3]
t0 = time.time(); seg = None; exited = None
while time.time() - t0 < secs:
    try:
        b = open('/run/clockbound/shm', 'rb').read()
        if len(b) >= 72 and struct.unpack_from('<H', b, 14)[0] not in (0,) and struct.unpack_from('<H', b, 14)[0] % 2 == 0:
            seg = b; break
    except OSError:
        pass
    r = os.waitpid(pid, os.WNOHANG) if False else (0, 0)
    try:
        os.kill(pid, 0)
    except OSError:
        break
    time.sleep(0.05)
alive = True
try:
    os.kill(pid, 0)
except OSError:
    alive = False
res = {"alive_at_sample": alive, "published": seg is not None}
if seg:
    res.update({"len": len(seg), "gen": struct.unpack_from('<H', seg, 14)[0], "ppb": struct.unpack_from('<I', seg, 56)[0],
                "status": struct.unpack_from('<i', seg, 64)[0], "hex": seg[:72].hex()})
res["log_tail"] = open('/run/daemon.log', errors='replace').read()[-400:]
json.dump(res, open(out, 'w'))
PY
kill $PID 2>/dev/null
wait $PID 2>/dev/null
RC=$?
python3 - "$OUT" "$RC" <<'PY'
import json, sys
d = json.load(open(sys.argv[1])); d["exit_code"] = int(sys.argv[2]); json.dump(d, open(sys.argv[1], 'w'))
PY
