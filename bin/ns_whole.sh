#!/bin/bash
# ns_whole.sh <clockbound-binary> <fakechrony-binary> <script> <total-seconds> <outfile> <phc-schedule|none> <fake-args> -- [daemon args...]
# Inside `unshare -m`: private /run, (optionally) a fake sysfs PHC device, a scripted fake chronyd, the real daemon.
# Every change of the published record is sampled with all its fields and a CLOCK_MONOTONIC reading.
# phc-schedule: "0=4321;6=98765;12=rm;17=555" (second = value written to, or removal of, the PHC error-bound file);
#               the interface is eth9, PCI slot 0000:00:05.0.
BIN="$1"; FAKE="$2"; SCRIPT="$3"; SECS="$4"; OUT="$5"; PHC="$6"; FAKEARGS="$7"; shift 7
[ "$1" = "--" ] && shift
mount -t tmpfs tmpfs /run || { echo '{"error":"mount /run"}' > "$OUT"; exit 0; }
mkdir -p /run/chrony
if [ "$PHC" != "none" ]; then
  mount -t tmpfs tmpfs /sys/class/net && mount -t tmpfs tmpfs /sys/bus/pci/devices || { echo '{"error":"mount sysfs overlay"}' > "$OUT"; exit 0; }
  mkdir -p /sys/class/net/eth9/device /sys/bus/pci/devices/0000:00:05.0
  printf 'DRIVER=ena\nPCI_CLASS=20000\nPCI_SLOT_NAME=0000:00:05.0\nMODALIAS=x\n' > /sys/class/net/eth9/device/uevent
fi
python3 - "$SECS" "$OUT" "$PHC" "$BIN" "$FAKE" "$SCRIPT" "$FAKEARGS" "$@" <<'PY'
import sys, time, os, struct, json, subprocess
secs, out, phc, binary, fake, script, fakeargs = float(sys.argv[1]), sys.argv[2], sys.argv[3], sys.argv[4], sys.argv[5], sys.argv[6], sys.argv[7]
dargs = sys.argv[8:]
PHCF = '/sys/bus/pci/devices/0000:00:05.0/phc_error_bound'
sched = []
if phc != 'none':
    for item in phc.split(';'):
        t, v = item.split('=')
        sched.append((float(t), v))
mono = lambda: time.clock_gettime_ns(time.CLOCK_MONOTONIC)
phclog = []
def apply(v):
    if v == 'rm':
        try: os.remove(PHCF)
        except OSError: pass
    else:
        tmp = PHCF + '.tmp'
        open(tmp, 'w').write(v + '\n'); os.rename(tmp, PHCF)
    phclog.append({"mono_ns": mono(), "value": v})
while sched and sched[0][0] <= 0:
    apply(sched.pop(0)[1])
fp = subprocess.Popen([fake, '--script', script, '--log', '/run/fake.log'] + fakeargs.split())
time.sleep(0.2)
start_ns = mono()
dp = subprocess.Popen([binary] + dargs, stdout=open('/run/daemon.log', 'w'), stderr=subprocess.STDOUT)
t0 = time.time(); samples = []; last = None
while time.time() - t0 < secs:
    while sched and sched[0][0] <= time.time() - t0:
        apply(sched.pop(0)[1])
    try:
        b = open('/run/clockbound/shm', 'rb').read()
        if len(b) >= 72:
            gen = struct.unpack_from('<H', b, 14)[0]
            if gen % 2 == 0 and gen != 0:
                b2 = open('/run/clockbound/shm', 'rb').read()
                if b2 == b and b != last:
                    as_s, as_n, va_s, va_n, bound, drift, _r, st = struct.unpack_from('<qqqqqIIi', b, 16)
                    samples.append({"t_ms": int((time.time() - t0) * 1000) + 200, "mono_ns": mono(), "gen": gen, "status": st, "bound": bound,
                                    "as_of": [as_s, as_n], "void_after": [va_s, va_n], "drift": drift})
                    last = b
    except OSError:
        pass
    time.sleep(0.02)
alive = dp.poll() is None
dp.kill(); fp.kill()
fakelog = [json.loads(l) for l in open('/run/fake.log') if l.strip()] if os.path.exists('/run/fake.log') else []
json.dump({"samples": samples, "fake": fakelog, "phc": phclog, "start_ns": start_ns, "daemon_alive": alive,
           "daemon_log_tail": open('/run/daemon.log').read()[-1500:]}, open(out, 'w'))
PY
