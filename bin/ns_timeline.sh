#!/bin/bash
# ns_timeline.sh <clockbound-binary> <fakechrony-binary> <script> <total-seconds> <outfile> [daemon args...]
# Inside `unshare -m`: private /run, scripted fake chronyd, the real daemon, segment sampled every 50 ms.
BIN="$1"; FAKE="$2"; SCRIPT="$3"; SECS="$4"; OUT="$5"; shift 5
mount -t tmpfs tmpfs /run || { echo '{"error":"mount"}' > "$OUT"; exit 0; }
mkdir -p /run/chrony
"$FAKE" --script "$SCRIPT" --log /run/fake.log &
FPID=$!
sleep 0.2
"$BIN" "$@" > /run/daemon.log 2>&1 &
PID=$!
python3 - "$PID" "$SECS" "$OUT" <<'PY'
import sys, time, os, struct, json
pid, secs, out = int(sys.argv[1]), float(sys.argv[2]), sys.argv[3]
t0 = time.time(); samples = []; last = None
while time.time() - t0 < secs:
    try:
        b = open('/run/clockbound/shm', 'rb').read()
        if len(b) >= 72:
            gen = struct.unpack_from('<H', b, 14)[0]
            if gen % 2 == 0 and gen != 0:
                st = struct.unpack_from('<i', b, 64)[0]
                bound = struct.unpack_from('<q', b, 48)[0]
                cur = (st, gen)
                if cur != last:
                    samples.append({"t_ms": int((time.time() - t0) * 1000) + 200, "status": st, "gen": gen, "bound": bound})
                    last = cur
    except OSError:
        pass
    time.sleep(0.05)
alive = True
try:
    os.kill(pid, 0)
except OSError:
    alive = False
fake = [json.loads(l) for l in open('/run/fake.log') if l.strip()] if os.path.exists('/run/fake.log') else []
json.dump({"samples": samples, "fake": fake, "daemon_alive": alive}, open(out, 'w'))
PY
kill $PID $FPID 2>/dev/null
wait 2>/dev/null
