pub mod seg;
pub mod segctl;
