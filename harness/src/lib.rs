pub fn hello() {}
