//! files: conformance driver for segment files (C16) and the segment layout (C17).
//!   files open   --seed S --n N --out files.ndjson [--cdriver p] [--progress f]
//!   files repair --seed S --n N
//!   files layout --seed S --n N --out img.ndjson
use cbverif::seg::*;
use cbverif::segctl::*;
use clock_bound_client::{ClockBoundClient, ClockBoundErrorKind};
use clock_bound_shm::{ClockErrorBound, ClockStatus, ShmReader, ShmWrite, ShmWriter};
use rand::rngs::StdRng;
use rand::{Rng, SeedableRng};
use serde_json::{json, Value};
use std::io::{BufRead, BufReader, Write};
use std::path::{Path, PathBuf};
use std::process::{Child, ChildStdin, ChildStdout, Command, Stdio};

fn arg(args: &[String], name: &str) -> Option<String> {
    args.iter().position(|a| a == name).and_then(|i| args.get(i + 1).cloned())
}

struct CDriver {
    child: Child,
    stdin: ChildStdin,
    stdout: BufReader<ChildStdout>,
    kinds: Vec<(i32, String)>,
}
impl CDriver {
    fn spawn(path: &str) -> CDriver {
        let mut child = Command::new(path).stdin(Stdio::piped()).stdout(Stdio::piped()).spawn().expect("spawn C driver");
        let stdin = child.stdin.take().unwrap();
        let stdout = BufReader::new(child.stdout.take().unwrap());
        let mut c = CDriver { child, stdin, stdout, kinds: vec![] };
        // error kinds as the C header numbers them
        let l = c.ask("layout").unwrap_or_default();
        let t: Vec<&str> = l.split_whitespace().collect();
        for (name, rust) in [("ERR_SYSCALL", "Syscall"), ("ERR_NOTINIT", "SegmentNotInitialized"), ("ERR_MALFORMED", "SegmentMalformed"), ("ERR_CAUSALITY", "CausalityBreach"), ("ERR_NONE", "None")] {
            if let Some(i) = t.iter().position(|x| *x == name) {
                c.kinds.push((t[i + 1].parse().unwrap(), rust.to_string()));
            }
        }
        c
    }
    fn ask(&mut self, line: &str) -> Option<String> {
        writeln!(self.stdin, "{line}").ok()?;
        self.stdin.flush().ok()?;
        let mut s = String::new();
        match self.stdout.read_line(&mut s) {
            Ok(0) | Err(_) => None,
            Ok(_) => Some(s.trim().to_string()),
        }
    }
    fn kind(&self, k: i32) -> String {
        self.kinds.iter().find(|x| x.0 == k).map(|x| x.1.clone()).unwrap_or(format!("kind{k}"))
    }
}

/// (kind, errno, detail) of an open outcome; ("Ok", 0, "") on success
type Open3 = (String, i32, String);

fn rust_reader_open(path: &Path) -> Open3 {
    let c = std::ffi::CString::new(path.to_string_lossy().as_bytes()).unwrap();
    let r = std::panic::catch_unwind(|| ShmReader::new(&c));
    let Ok(r) = r else { return ("Panic".into(), 0, "ShmReader::new panicked".into()) };
    match r {
        Ok(_) => ("Ok".into(), 0, String::new()),
        Err(clock_bound_shm::ShmError::SyscallError(e, d)) => ("Syscall".into(), e.0, d.to_string_lossy().to_string()),
        Err(clock_bound_shm::ShmError::SegmentNotInitialized) => ("SegmentNotInitialized".into(), 0, String::new()),
        Err(clock_bound_shm::ShmError::SegmentMalformed) => ("SegmentMalformed".into(), 0, String::new()),
        Err(clock_bound_shm::ShmError::CausalityBreach) => ("CausalityBreach".into(), 0, String::new()),
    }
}
fn rust_client_open(path: &Path) -> Open3 {
    let p = path.to_str().unwrap().to_string();
    let r = std::panic::catch_unwind(move || ClockBoundClient::new_with_path(&p));
    let Ok(r) = r else { return ("Panic".into(), 0, "ClockBoundClient::new_with_path panicked".into()) };
    match r {
        Ok(_) => ("Ok".into(), 0, String::new()),
        Err(e) => (
            match e.kind {
                ClockBoundErrorKind::Syscall => "Syscall",
                ClockBoundErrorKind::SegmentNotInitialized => "SegmentNotInitialized",
                ClockBoundErrorKind::SegmentMalformed => "SegmentMalformed",
                ClockBoundErrorKind::CausalityBreach => "CausalityBreach",
            }
            .to_string(),
            e.errno.0,
            e.detail,
        ),
    }
}
fn c_open(c: &mut CDriver, path: &Path) -> Option<Open3> {
    let r = c.ask(&format!("open {}", path.display()))?;
    let t: Vec<&str> = r.split_whitespace().collect();
    if t.first() == Some(&"ok") {
        Some(("Ok".into(), 0, String::new()))
    } else if t.len() >= 4 {
        Some((c.kind(t[1].parse().ok()?), t[2].parse().ok()?, if t[3] == "-" { String::new() } else { t[3..].join(" ") }))
    } else {
        None
    }
}
fn normalise(o: &Open3) -> String {
    match (o.0.as_str(), o.1, o.2.as_str()) {
        ("Ok", _, _) => "Ok".into(),
        ("SegmentNotInitialized", _, _) => "NotInitialized".into(),
        ("SegmentMalformed", _, _) => "Malformed".into(),
        ("Syscall", 2, "open") => "ENOENT".into(),
        ("Syscall", 21, "read SHM segment") => "EISDIR".into(),
        ("Syscall", 12, "mmap SHM segment") => "ENOMEM".into(),
        (k, e, d) => format!("{k}:{e}:{d}"),
    }
}

/// the concrete files to try: (description, kind, bytes)
fn concrete_files(rng: &mut StdRng, n_random: usize) -> Vec<(String, String, Vec<u8>)> {
    let mut v: Vec<(String, String, Vec<u8>)> = vec![];
    v.push(("missing".into(), "missing".into(), vec![]));
    v.push(("directory".into(), "dir".into(), vec![]));
    let lens = [0usize, 1, 7, 8, 12, 15, 16, 17, 40, 71, 72, 73, 100, 4096];
    let vers = [0u16, 1, 2, 65535];
    let gens = [0u16, 1, 2, 4, 65535];
    let sizes = [0u32, 15, 16, 17, 55, 56, 64, 71, 72, 73, 4096, u32::MAX];
    for len in lens {
        for ver in vers {
            for gen in gens {
                for size in sizes {
                    for magic_ok in [true, false] {
                        // thin the product deterministically: keep every combination that touches a boundary pair
                        let keep = magic_ok || (ver == 1 && gen == 4 && (size == 72 || len == 72));
                        if !keep {
                            continue;
                        }
                        let mut img = image(magic_ok, size, ver, gen, &rec_words(1));
                        img.resize(len.max(72), 0xA5);
                        img.truncate(len);
                        v.push((format!("grid len={len} ver={ver} gen={gen} size={size} magic_ok={magic_ok}"), "file".into(), img));
                    }
                }
            }
        }
    }
    // structured mutations of a valid segment: every single-bit flip of the header, every truncation
    let valid = image(true, 72, 1, 4, &rec_words(1));
    for byte in 0..16 {
        for bit in 0..8 {
            let mut m = valid.clone();
            m[byte] ^= 1 << bit;
            v.push((format!("bitflip byte {byte} bit {bit}"), "file".into(), m));
        }
    }
    for l in 0..=72 {
        v.push((format!("truncated to {l}"), "file".into(), valid[..l].to_vec()));
    }
    // random byte strings, half of them with a valid magic
    for i in 0..n_random {
        let len = [0, 5, 16, 30, 72, 72, 72, 200][rng.gen_range(0..8)];
        let mut b: Vec<u8> = (0..len).map(|_| rng.gen()).collect();
        if i % 2 == 0 && len >= 8 {
            b[0..8].copy_from_slice(&magic());
        }
        if i % 4 == 0 && len >= 16 {
            // plausible small header fields
            b[8..12].copy_from_slice(&(rng.gen_range(0..100u32)).to_ne_bytes());
            b[12..14].copy_from_slice(&(rng.gen_range(0..3u16)).to_ne_bytes());
            b[14..16].copy_from_slice(&(rng.gen_range(0..5u16)).to_ne_bytes());
        }
        v.push((format!("random #{i} len {len}"), "file".into(), b));
    }
    v
}

fn materialise(path: &Path, kind: &str, bytes: &[u8]) {
    let _ = std::fs::remove_file(path);
    let _ = std::fs::remove_dir(path);
    match kind {
        "missing" => (),
        "dir" => std::fs::create_dir(path).unwrap(),
        _ => std::fs::write(path, bytes).unwrap(),
    }
}

fn open_cmd(args: &[String]) -> Value {
    let seed: u64 = arg(args, "--seed").map(|s| s.parse().unwrap()).unwrap_or(1);
    let n: usize = arg(args, "--n").map(|s| s.parse().unwrap()).unwrap_or(512);
    let out = arg(args, "--out").expect("--out");
    let progress = arg(args, "--progress");
    let cdriver = arg(args, "--cdriver");
    let mut rng = StdRng::seed_from_u64(seed);
    let mut files = concrete_files(&mut rng, n);
    // --rlimit: address space limited to 1 GiB, only the files declaring a huge segment: mmap itself fails
    let rlimit = args.iter().any(|a| a == "--rlimit");
    if rlimit {
        files.retain(|(_, kind, b)| kind == "file" && b.len() >= 12 && u32::from_ne_bytes(b[8..12].try_into().unwrap()) >= 0x8000_0000);
        let lim = libc::rlimit { rlim_cur: 1 << 30, rlim_max: 1 << 30 };
        unsafe { libc::setrlimit(libc::RLIMIT_AS, &lim) };
    }
    let path = scratch_path("open");
    let mut cd = if rlimit { None } else { cdriver.as_ref().map(|p| CDriver::spawn(p)) };
    let mut f = std::io::BufWriter::new(std::fs::File::create(&out).unwrap());
    let mut disagree = vec![];
    let mut c_died = vec![];
    let mut outcomes = std::collections::BTreeMap::<String, u64>::new();
    for (i, (desc, kind, bytes)) in files.iter().enumerate() {
        materialise(&path, kind, bytes);
        if let Some(p) = &progress {
            let _ = std::fs::write(p, format!("{i} {desc}"));
        }
        let fs = file_state(&path);
        let a = rust_reader_open(&path);
        let b = rust_client_open(&path);
        let mut c3 = None;
        if let Some(c) = cd.as_mut() {
            c3 = c_open(c, &path);
            if c3.is_none() {
                if c_died.len() < 5 {
                    c_died.push(json!({"id": i, "file": desc}));
                }
                *c = CDriver::spawn(cdriver.as_ref().unwrap());
            } else {
                let _ = c.ask("close");
            }
        }
        if a != b || c3.as_ref().map(|c| *c != a).unwrap_or(false) {
            if disagree.len() < 10 {
                disagree.push(json!({"id": i, "file": desc, "ShmReader::new": format!("{a:?}"), "ClockBoundClient::new_with_path": format!("{b:?}"), "clockbound_open": format!("{c3:?}")}));
            }
        }
        let got = normalise(&a);
        *outcomes.entry(got.clone()).or_insert(0) += 1;
        let line = json!({"id": i, "desc": desc, "kind": kind, "len": fs.len, "mok": fs.magic_ok, "size": (fs.size as u64).min(1_000_000),
                          "ver": fs.ver, "gen": fs.gen, "got": got, "mmapfail": rlimit});
        writeln!(f, "{line}").unwrap();
    }
    f.flush().unwrap();
    if let Some(mut c) = cd {
        let _ = c.ask("quit");
        let _ = c.child.wait();
    }
    materialise(&path, "missing", &[]);
    cleanup(&path);
    json!({"files": files.len(), "outcomes": outcomes, "disagree": disagree, "c_died": c_died, "c_client": cdriver.is_some()})
}

fn repair_cmd(args: &[String]) -> Value {
    let seed: u64 = arg(args, "--seed").map(|s| s.parse().unwrap()).unwrap_or(1);
    let n: usize = arg(args, "--n").map(|s| s.parse().unwrap()).unwrap_or(256);
    let mut rng = StdRng::seed_from_u64(seed);
    let files = concrete_files(&mut rng, n);
    let mut violations = vec![];
    let mut errors = vec![];
    let mut done = 0usize;
    let (mut recreated, mut inplace) = (0u64, 0u64);
    for (i, (desc, kind, bytes)) in files.iter().enumerate() {
        if kind == "dir" {
            continue;
        }
        let path = scratch_path(&format!("repair{i}"));
        materialise(&path, kind, bytes);
        let mut ctl = Ctl::new(&path, 2, &[], 0, 0);
        let r = (|| -> Result<(), String> {
            ctl.start("W", Cmd::WNew)?;
            let mut g = 0;
            while ctl.pending_of("W").is_some() && g < 64 {
                g += 1;
                ctl.release("W", Directive::Proceed)?;
            }
            if ctl.procs["W"].alive {
                ctl.start("W", Cmd::WWrite(7))?;
                let mut g = 0;
                while ctl.pending_of("W").is_some() && g < 64 {
                    g += 1;
                    ctl.release("W", Directive::Proceed)?;
                }
            }
            Ok(())
        })();
        if ctl.oracle.start_usable { inplace += 1 } else { recreated += 1 }
        done += 1;
        if let Err(e) = r {
            errors.push(json!({"file": desc, "error": e}));
        }
        // after start-up and first publication the file must be exactly openable and carry record 7
        let fs = file_state(&path);
        if fs.len >= 72 && fs.words != rec_words(7) && ctl.oracle.violations.is_empty() {
            ctl.oracle.violations.push(("C16".into(), "published-record-not-in-file".into(), format!("file words {:?} after publishing record 7", fs.words)));
        }
        if !ctl.oracle.violations.is_empty() && violations.len() < 10 {
            violations.push(json!({"file": desc, "bytes_len": bytes.len(), "violations": viol_json(&ctl.oracle.violations)}));
        }
        ctl.shutdown();
        cleanup(&path);
    }
    json!({"files": done, "recreated": recreated, "taken_over_in_place": inplace, "violations": violations, "errors": errors})
}

struct SendW(ShmWriter);
unsafe impl Send for SendW {}
impl ShmWrite for SendW {
    fn write(&mut self, c: &ClockErrorBound) {
        self.0.write(c)
    }
}

fn limbs(mut x: u128) -> Vec<u64> {
    let mut v = vec![];
    while x > 0 {
        v.push((x % 1000) as u64);
        x /= 1000;
    }
    v
}

/// leave a non-zero byte pattern on the stack, so that padding bytes of records built afterwards are
/// not zero by luck (C17: padding must not leak into documented fields)
#[inline(never)]
fn poison_stack() {
    let a = [0xFFu8; 8192];
    std::hint::black_box(&a);
}

fn layout_cmd(args: &[String]) -> Value {
    let seed: u64 = arg(args, "--seed").map(|s| s.parse().unwrap()).unwrap_or(1);
    let n: usize = arg(args, "--n").map(|s| s.parse().unwrap()).unwrap_or(200);
    let out = arg(args, "--out").expect("--out");
    let mut rng = StdRng::seed_from_u64(seed);
    let path = scratch_path("layout");
    let mut w = ShmWriter::new(&path).expect("new");
    let mut f = std::io::BufWriter::new(std::fs::File::create(&out).unwrap());
    let ext64: [i64; 6] = [0, 1, 255, 256, 1 << 32, i64::MAX];
    let ext32: [u32; 5] = [0, 1, 65535, 65536, u32::MAX];
    let mut id = 0;
    let mut emit = |f: &mut std::io::BufWriter<std::fs::File>, id: &mut usize, a: (i64, i64), v: (i64, i64), b: i64, d: u32, r: u32, st: u8, via: &str| {
        let fs = file_state(&path);
        let line = json!({"id": *id, "via": via, "bytes": fs.raw, "gen": limbs(fs.gen as u128),
            "asOfSec": limbs(a.0 as u128), "asOfNsec": limbs(a.1 as u128), "voidSec": limbs(v.0 as u128), "voidNsec": limbs(v.1 as u128),
            "bound": limbs(b as u128), "drift": limbs(d as u128), "reserved": limbs(r as u128), "status": st,
            "sizeofStatus": std::mem::size_of::<ClockStatus>(), "sizeofRecord": std::mem::size_of::<ClockErrorBound>()});
        writeln!(f, "{line}").unwrap();
        *id += 1;
    };
    // every field at its extremes, one at a time, all three statuses
    for k in 0..n {
        let pick64 = |rng: &mut StdRng| if rng.gen_range(0..3) == 0 { ext64[rng.gen_range(0..ext64.len())] } else { rng.gen_range(0..i64::MAX) };
        let (a0, a1, v0, v1, b) = (pick64(&mut rng), pick64(&mut rng) % 1_000_000_000, pick64(&mut rng), pick64(&mut rng) % 1_000_000_000, pick64(&mut rng));
        let d = if rng.gen_range(0..3) == 0 { ext32[rng.gen_range(0..ext32.len())] } else { rng.gen() };
        let r = if k % 7 == 0 { rng.gen() } else { 0 };
        let st = (k % 3) as u8;
        let status = [ClockStatus::Unknown, ClockStatus::Synchronized, ClockStatus::FreeRunning][st as usize];
        poison_stack();
        w.write(&ClockErrorBound::new(libc::timespec { tv_sec: a0, tv_nsec: a1 }, libc::timespec { tv_sec: v0, tv_nsec: v1 }, b, d, r, status));
        emit(&mut f, &mut id, (a0, a1), (v0, v1), b, d, r, st, "ShmWriter::write");
    }
    drop(w);
    // the daemon path: real Updater -> real ShmWriter
    {
        use chrony_candm::common::ChronyAddr;
        use chrony_candm::reply::Tracking;
        let wr = ShmWriter::new(&path).expect("new");
        let drift = 4_294_967_000u32;
        let mut up = clock_bound_d::verif_writer::Updater::new(Box::new(SendW(wr)), drift);
        // what is expected in the bytes is what the CODE decided to publish (its own classification and bound of the
        // report: those are C10's and C07's business); this check is about where the bytes are
        let (mut have, mut eb) = (false, 0i64);
        for leap in [0u16, 3, 7] {
            let t = Tracking {
                ref_id: 0,
                ip_addr: ChronyAddr::default(),
                stratum: 1,
                leap_status: leap,
                ref_time: std::time::SystemTime::now(),
                current_correction: 0.0.into(),
                last_offset: 0.0.into(),
                rms_offset: 0.0.into(),
                freq_ppm: 0.0.into(),
                resid_freq_ppm: 0.0.into(),
                skew_ppm: 0.0.into(),
                root_delay: 0.0.into(),
                root_dispersion: 0.0078125.into(),
                last_update_interval: 16.0.into(),
            };
            let (raw, cls) = clock_bound_d::verif_writer::bound_and_status(t);
            if cls == 1 {
                have = true;
                eb = raw + 5;
            }
            poison_stack();
            up.clock_update(t, 5, libc::timespec { tv_sec: 123456, tv_nsec: 789 });
            let st = if have { cls } else { 0 };
            let (ea, ev) = if have { ((123456, 789), (124456, 0)) } else { ((0, 0), (1000, 0)) };
            emit(&mut f, &mut id, ea, ev, if have { eb } else { 0 }, drift, 0, st, "Updater::clock_update");
        }
    }
    f.flush().unwrap();
    cleanup(&path);
    json!({"images": id})
}

fn main() {
    let args: Vec<String> = std::env::args().collect();
    std::panic::set_hook(Box::new(|i| {
        if std::env::var("CB_DEBUG").is_ok() {
            eprintln!("[panic] {i}");
        }
    }));
    let out = match args.get(1).map(|s| s.as_str()) {
        Some("open") => open_cmd(&args),
        Some("repair") => repair_cmd(&args),
        Some("layout") => layout_cmd(&args),
        _ => {
            eprintln!("usage: files open|repair|layout ...");
            std::process::exit(2)
        }
    };
    println!("{}", out);
    let _ = PathBuf::new();
}
