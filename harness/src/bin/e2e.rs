//! e2e: the whole pipeline in a virtual-time world (C01, C12).
//!   e2e order                              extract the order of the clock reads of the poller iteration and of now() (binding X)
//!   e2e replay <behaviours.ndjson>         E2E.tla behaviours through real poller iteration -> real updater -> real segment -> real client
//!   e2e explore --seed S --polls N         long random histories (outages, restarts, negative offsets, adversarial ask instants), O1 containment
//! The harness owns true time: CLOCK_REALTIME = true time + err, CLOCK_MONOTONIC = uptime. A trusted interval that does not
//! contain true time at the instant the realtime clock was read is a violation of C01.
use cbverif::seg::{cleanup, scratch_path, words_of};
use chrony_candm::common::{ChronyAddr, ChronyFloat};
use chrony_candm::reply::Tracking;
use clock_bound_client::ClockBoundClient;
use clock_bound_d::channels::new_channel_web;
use clock_bound_d::thread_manager::Context;
use clock_bound_d::{verif_poller, verif_writer, ChannelId, Message};
use clock_bound_shm::{verif, ClockErrorBound, ShmWrite, ShmWriter};
use rand::rngs::StdRng;
use rand::{Rng, SeedableRng};
use serde_json::{json, Value};
use std::io::BufRead;
use std::path::Path;
use std::sync::mpsc::Receiver;
use std::sync::{Arc, Mutex};
use std::time::{Duration, SystemTime};

const G: i128 = 1_000_000_000;
/// one model error unit = RHO * 1 s with RHO = 65536 ppb
const UNIT: i128 = 65_536;
const DRIFT_PPB: u32 = 65_536;
const T0: i128 = 1_700_000_000; // true time of model second 0 (s since the epoch)
const M0: i128 = 1; // uptime of model second 0 (just after boot: the placeholder record with as_of 0 is then neither fresh nor void)

fn arg(args: &[String], name: &str) -> Option<String> {
    args.iter().position(|a| a == name).and_then(|i| args.get(i + 1).cloned())
}

fn cf(coef: i32, e: i32) -> ChronyFloat {
    let exp = e + 25;
    assert!((-64..=63).contains(&exp) && (-(1 << 24)..(1 << 24)).contains(&coef), "coef {coef} e {e}");
    let w: u32 = (((exp as u32) & 0x7f) << 25) | ((coef as u32) & 0x01ff_ffff);
    unsafe { std::mem::transmute(w) }
}
/// smallest wire float coef * 2^-40 s that is >= ns nanoseconds
fn cf_at_least(ns: i128) -> ChronyFloat {
    // coef = ceil(ns * 2^40 / 1e9), shifted to fit 24 bits
    let mut num = ns * (1i128 << 40);
    let mut coef = (num + G - 1) / G;
    let mut e = -40;
    while coef >= (1 << 24) {
        coef = (coef + 1) / 2;
        num /= 2;
        e += 1;
    }
    cf(coef as i32, e)
}
fn ts(ns: i128) -> libc::timespec {
    libc::timespec { tv_sec: ns.div_euclid(G) as i64, tv_nsec: ns.rem_euclid(G) as i64 }
}
fn ns_of(t: &libc::timespec) -> i128 {
    t.tv_sec as i128 * G + t.tv_nsec as i128
}

fn tracking(leap: u16, ref_time: SystemTime, corr: ChronyFloat, disp: ChronyFloat) -> Tracking {
    Tracking {
        ref_id: 0,
        ip_addr: ChronyAddr::default(),
        stratum: 1,
        leap_status: leap,
        ref_time,
        current_correction: corr,
        last_offset: 0.0.into(),
        rms_offset: 0.0.into(),
        freq_ppm: 0.0.into(),
        resid_freq_ppm: 0.0.into(),
        skew_ppm: 0.0.into(),
        root_delay: cf(0, -30),
        root_dispersion: disp,
        last_update_interval: 16.0.into(),
    }
}

#[derive(Clone, Default)]
struct Capture(Arc<Mutex<Vec<ClockErrorBound>>>);
struct Tee {
    real: ShmWriter,
    cap: Capture,
}
unsafe impl Send for Tee {}
impl ShmWrite for Tee {
    fn write(&mut self, c: &ClockErrorBound) {
        self.real.write(c);
        self.cap.0.lock().unwrap().push(*c);
    }
}
fn fields(c: &ClockErrorBound) -> (i128, i128, i64, u32, u8) {
    let w = words_of(c);
    ((w[0] as i64) as i128 * G + (w[1] as i64) as i128, (w[2] as i64) as i128 * G + (w[3] as i64) as i128, w[4] as i64, (w[5] & 0xffff_ffff) as u32, (w[6] & 0xff) as u8)
}

/// A scripted clock: the k-th call of clock_gettime_safe happens at instant `at[k]` (model seconds, error units);
/// which clock is asked for decides what is returned at that instant. Returns the log of (clock id, index).
struct SeqClock {
    at: Vec<(i128, i128)>, // (now seconds, err units)
    k: usize,
    log: Vec<i32>,
}
fn install_seq_clock(at: Vec<(i128, i128)>) -> Arc<Mutex<SeqClock>> {
    let c = Arc::new(Mutex::new(SeqClock { at, k: 0, log: vec![] }));
    let c2 = c.clone();
    verif::set_clock(Some(Box::new(move |id| {
        let mut s = c2.lock().unwrap();
        let i = s.k.min(s.at.len() - 1);
        let (now, err) = s.at[i];
        s.k += 1;
        s.log.push(id as i32);
        if id == libc::CLOCK_REALTIME {
            ts((T0 + now) * G + err * UNIT)
        } else {
            ts((M0 + now) * G)
        }
    })));
    c
}

/// One real poller iteration. `now_first` / `now_second`: instants of the two environment interactions in the order the
/// REAL code performs them (clock read and query). Returns (message, events in real order: "mono" / "query").
fn poll_once(now_first: i128, now_second: i128, reply: Option<Tracking>, grace: bool) -> Result<(Message, Vec<String>), String> {
    let (mut mbox, dbox) = new_channel_web(vec![ChannelId::ClockErrorBoundPoller, ChannelId::ShmWriter, ChannelId::MainThread]);
    let rx_writer: Receiver<Message> = mbox.get_mailbox(&ChannelId::ShmWriter).unwrap();
    let _rx_main: Receiver<Message> = mbox.get_mailbox(&ChannelId::MainThread).unwrap();
    let rx = mbox.get_mailbox(&ChannelId::ClockErrorBoundPoller).unwrap();
    let ctx = Context { mbox: rx, dbox: dbox.clone(), channel_id: ChannelId::ClockErrorBoundPoller };
    dbox.send(&ChannelId::ClockErrorBoundPoller, Message::ThreadAbort).map_err(|e| e.to_string())?;
    // events in real order; the k-th event happens at now_first (k = 0) or now_second (k >= 1)
    let events: Arc<Mutex<Vec<String>>> = Arc::new(Mutex::new(vec![]));
    let (e1, e2) = (events.clone(), events.clone());
    verif::set_clock(Some(Box::new(move |_id| {
        let mut ev = e1.lock().unwrap();
        let now = if ev.is_empty() { now_first } else { now_second };
        ev.push("mono".into());
        ts((M0 + now) * G)
    })));
    let res = std::panic::catch_unwind(std::panic::AssertUnwindSafe(|| {
        verif_poller::run_poller_scripted(
            ctx,
            Box::new(move || {
                e2.lock().unwrap().push("query".into());
                reply
            }),
            Box::new(move || grace),
            None,
            Duration::from_millis(0),
        )
    }));
    verif::set_clock(None);
    if res.is_err() {
        return Err("poller iteration panicked".into());
    }
    let ev = events.lock().unwrap().clone();
    let m = rx_writer.try_recv().map_err(|_| "poller iteration sent no message".to_string())?;
    Ok((m, ev))
}

fn order_cmd() -> Value {
    let (_m, ev) = poll_once(0, 1, None, false).unwrap_or((Message::ThreadAbort, vec!["?".into()]));
    let poller = match ev.iter().map(|s| s.as_str()).collect::<Vec<_>>().as_slice() {
        ["mono", "query"] => "mono_first",
        ["query", "mono"] => "query_first",
        _ => "other",
    };
    // client: one now() on a record
    let path = scratch_path("order");
    let mut w = ShmWriter::new(&path).unwrap();
    w.write(&ClockErrorBound::new(ts(M0 * G), ts((M0 + 1000) * G), 10, 1000, 0, clock_bound_shm::ClockStatus::Synchronized));
    let mut c = ClockBoundClient::new_with_path(path.to_str().unwrap()).unwrap();
    let clk = install_seq_clock(vec![(1, 0), (2, 0)]);
    let _ = c.now();
    verif::set_clock(None);
    let log = clk.lock().unwrap().log.clone();
    let client = if log.len() == 2 && log[0] == libc::CLOCK_REALTIME as i32 && log[1] != libc::CLOCK_REALTIME as i32 {
        "real_first"
    } else if log.len() == 2 && log[1] == libc::CLOCK_REALTIME as i32 && log[0] != libc::CLOCK_REALTIME as i32 {
        "mono_first"
    } else {
        "other"
    };
    drop(w);
    cleanup(&path);
    json!({"poller": poller, "poller_events": ev, "client": client, "client_reads": log})
}

// ------------------------------------------------------------------------------------------ the real pipeline
struct Pipeline {
    path: std::path::PathBuf,
    updater: Option<verif_writer::Updater>,
    cap: Capture,
    client: Option<ClockBoundClient>,
    reader: Option<clock_bound_shm::ShmReader>,
}
impl Pipeline {
    fn new(tag: &str) -> Pipeline {
        Pipeline { path: scratch_path(tag), updater: None, cap: Capture::default(), client: None, reader: None }
    }
    /// ShmReader::snapshot() now (what ClockBoundClient::now() does first); None if the segment cannot be opened
    fn snapshot(&mut self, serve_cache: bool) -> Option<ClockErrorBound> {
        if self.reader.is_none() {
            let c = std::ffi::CString::new(self.path.to_string_lossy().as_bytes()).unwrap();
            self.reader = clock_bound_shm::ShmReader::new(&c).ok();
        }
        let path = self.path.clone();
        let r = self.reader.as_mut()?;
        let mut saved = None;
        if serve_cache {
            let b = std::fs::read(&path).ok()?;
            saved = Some(u16::from_ne_bytes([b[14], b[15]]));
            patch_gen(&path, saved.unwrap() | 1);
        }
        let out = r.snapshot().ok().copied();
        if let Some(g) = saved {
            patch_gen(&path, g);
        }
        out
    }
    /// ClockErrorBound::now() on a snapshot (what ClockBoundClient::now() does second), reads at the given instants
    fn now_on(rec: &ClockErrorBound, at: Vec<(i128, i128)>) -> Result<(Option<(i128, i128, u8)>, Vec<i32>), String> {
        let clk = install_seq_clock(at);
        let r = std::panic::catch_unwind(std::panic::AssertUnwindSafe(|| rec.now()));
        verif::set_clock(None);
        let log = clk.lock().unwrap().log.clone();
        match r {
            Err(_) => Err("now() panicked".into()),
            Ok(Err(_)) => Ok((None, log)),
            Ok(Ok((e, l, st))) => Ok((Some((ns_of(&e), ns_of(&l), st as u8)), log)),
        }
    }
    fn start(&mut self) -> Result<(), String> {
        let w = ShmWriter::new(&self.path).map_err(|e| format!("ShmWriter::new: {e}"))?;
        self.cap = Capture::default();
        self.updater = Some(verif_writer::Updater::new(Box::new(Tee { real: w, cap: self.cap.clone() }), DRIFT_PPB));
        Ok(())
    }
    fn die(&mut self) {
        self.updater = None;
    }
    fn deliver(&mut self, m: Message) -> Option<ClockErrorBound> {
        let up = self.updater.as_mut()?;
        match m {
            Message::ClockErrorBoundData((t, phc, as_of)) => up.clock_update(t, phc, as_of),
            Message::ChronyNotRespondingGracePeriod | Message::PhcErrorBoundRetrievalFailedGracePeriod => up.missing_update(true),
            Message::ChronyNotResponding | Message::PhcErrorBoundRetrievalFailed => up.missing_update(false),
            _ => (),
        }
        self.cap.0.lock().unwrap().last().copied()
    }
    /// client.now() with the two reads at the given instants (in the order the real code performs them).
    /// serve_cache: make the segment look "update in flight" so that the reader answers from its cache.
    fn ask(&mut self, at: Vec<(i128, i128)>, serve_cache: bool) -> Result<(Option<(i128, i128, u8)>, Vec<i32>), String> {
        if self.client.is_none() {
            self.client = ClockBoundClient::new_with_path(self.path.to_str().unwrap()).ok();
        }
        let Some(c) = self.client.as_mut() else { return Ok((None, vec![])) };
        let mut saved = None;
        if serve_cache {
            // generation odd: snapshot() returns the cached record
            let mut b = std::fs::read(&self.path).map_err(|e| e.to_string())?;
            saved = Some([b[14], b[15]]);
            let g = u16::from_ne_bytes([b[14], b[15]]) | 1;
            b[14..16].copy_from_slice(&g.to_ne_bytes());
            patch_gen(&self.path, g);
        }
        let clk = install_seq_clock(at);
        let r = std::panic::catch_unwind(std::panic::AssertUnwindSafe(|| c.now()));
        verif::set_clock(None);
        if let Some(s) = saved {
            patch_gen(&self.path, u16::from_ne_bytes(s));
        }
        let log = clk.lock().unwrap().log.clone();
        match r {
            Err(_) => Err("now() panicked".into()),
            Ok(Err(_)) => Ok((None, log)),
            Ok(Ok(x)) => Ok((Some((ns_of(x.earliest.as_ref()), ns_of(x.latest.as_ref()), x.clock_status as u8)), log)),
        }
    }
}
fn patch_gen(path: &Path, g: u16) {
    use std::io::{Seek, SeekFrom, Write};
    if let Ok(mut f) = std::fs::OpenOptions::new().write(true).open(path) {
        let _ = f.seek(SeekFrom::Start(14));
        let _ = f.write_all(&g.to_ne_bytes());
    }
}
impl Drop for Pipeline {
    fn drop(&mut self) {
        self.client = None;
        self.reader = None;
        self.updater = None;
        cleanup(&self.path);
    }
}

fn st_code(s: &str) -> u8 {
    match s {
        "S" => 1,
        "F" => 2,
        _ => 0,
    }
}

/// chrony report for a model message [kind, cls, sign, off, rest]
fn report_for(m: &Value) -> Option<Tracking> {
    if m["kind"] != "data" {
        return None;
    }
    let off = m["off"].as_i64().unwrap() as i128 * UNIT;
    let rest = m["rest"].as_i64().unwrap() as i128 * UNIT;
    let sign = m["sign"].as_i64().unwrap();
    let corr = if off == 0 { cf(0, -30) } else { let c = cf_at_least(off); if sign < 0 { neg(c) } else { c } };
    let (leap, rt) = match m["cls"].as_str().unwrap() {
        "S" => (0u16, SystemTime::now()),
        "F" => (3u16, SystemTime::now()),
        _ => (9u16, SystemTime::now()),
    };
    Some(tracking(leap, rt, corr, if rest == 0 { cf(0, -30) } else { cf_at_least(rest) }))
}
fn neg(c: ChronyFloat) -> ChronyFloat {
    let f: f64 = c.into();
    (-f).into()
}

// ------------------------------------------------------------------------------------------ replay of E2E.tla behaviours
fn replay_one(beh: &Value, tag: &str, orders: (&str, &str), stop_on: &[String]) -> (usize, usize, Vec<Value>, Option<String>) {
    let steps = beh["steps"].as_array().unwrap();
    let mut p = Pipeline::new(tag);
    let mut viol: Vec<Value> = vec![];
    let mut drift: Option<String> = None;
    let mut comps = 0usize;
    let mut add = |viol: &mut Vec<Value>, prop: &str, sig: &str, what: String| {
        if viol.len() < 12 {
            viol.push(json!({"property": prop, "signature": sig, "what": what}));
        }
    };
    // poller iteration: instants of its two environment interactions in MODEL order
    let mut p_mono_at: Option<i128> = None;
    let mut p_query_at: Option<i128> = None;
    // client call: instants (now, err) of the real read and the mono read, and the snapshot choice
    let mut c_real: Option<(i128, i128)> = None;
    let mut c_mono: Option<(i128, i128)> = None;
    let mut c_snap: Option<ClockErrorBound> = None;
    let mut prev_seg = steps[0]["exp"]["seg"].clone();
    for (i, st) in steps.iter().enumerate().skip(1) {
        let a = st["a"].as_str().unwrap();
        let exp = &st["exp"];
        let now = exp["now"].as_i64().unwrap() as i128;
        let err = exp["err"].as_i64().unwrap() as i128;
        match a {
            "Tick" | "CDone" => (),
            "DaemonStart" => {
                if let Err(e) = p.start() {
                    drift = Some(e);
                    break;
                }
            }
            "DaemonDie" => p.die(),
            "PReadMono" => p_mono_at = Some(now),
            "PQuery" => p_query_at = Some(now),
            "PDeliver" => {
                let prev = &steps[i - 1]["exp"];
                let m = &prev["pMsg"];
                let (ma, qa) = (p_mono_at.take().unwrap_or(now), p_query_at.take().unwrap_or(now));
                // instants in the order the real code performs its two steps
                let (first, second) = if orders.0 == "mono_first" { (ma, qa) } else { (qa, ma) };
                let grace = m["kind"] != "data" && exp["seg"]["st"] == "F";
                // without a first measurement the model publishes U whatever the class: decide grace from lastGood
                let grace = if m["kind"] != "data" { (prev["now"].as_i64().unwrap() - prev["lastGood"].as_i64().unwrap()) < 5 || grace } else { false };
                match poll_once(first, second, report_for(m), grace) {
                    Err(e) => {
                        drift = Some(format!("step {i} PDeliver: {e}"));
                        break;
                    }
                    Ok((msg, _ev)) => {
                        let rec = p.deliver(msg);
                        comps += 1;
                        let Some(rec) = rec else {
                            add(&mut viol, "C08", "outcome-not-published", "no publication".into());
                            break;
                        };
                        let (as_of, _void, bound, _dr, stc) = fields(&rec);
                        let seg = &exp["seg"];
                        let meas = seg["meas"].as_bool().unwrap();
                        let want_asof = if meas { (M0 + seg["asOf"].as_i64().unwrap() as i128) * G } else { 0 };
                        let want_b = seg["bound"].as_i64().unwrap() as i128 * UNIT;
                        if stc != st_code(seg["st"].as_str().unwrap()) {
                            add(&mut viol, if !meas { "C09" } else { "C08" }, "published-status", format!("published status {stc}, specification {} (measured {meas})", seg["st"]));
                        }
                        if meas && (as_of != want_asof || (bound as i128) < want_b || (bound as i128) > want_b + 3) {
                            add(&mut viol, "C08", "published-bound-asof", format!("published (bound {bound}, as_of {as_of}), specification (bound {want_b}..+3, as_of {want_asof})"));
                        }
                        prev_seg = seg.clone();
                    }
                }
            }
            "CSnap" => {
                // the reader obtains the latest record, or (update in flight) its cached one
                let serve_cache = exp["cRec"] != exp["seg"];
                c_snap = p.snapshot(serve_cache);
            }
            "CReadReal" => c_real = Some((now, err)),
            "CReadMono" => c_mono = Some((now, err)),
            "CCompute" => {
                let (r, m) = (c_real.take().unwrap_or((now, err)), c_mono.take().unwrap_or((now, err)));
                let at = if orders.1 == "real_first" { vec![r, m] } else { vec![m, r] };
                // which instant the REAL realtime read happened at (for the containment oracle)
                let res = match c_snap.take() {
                    Some(rec) => Pipeline::now_on(&rec, at.clone()),
                    None => Ok((None, vec![])),
                };
                match res {
                    Err(e) => {
                        add(&mut viol, "C14", "panic-in-now", e);
                        break;
                    }
                    Ok((None, _)) => {
                        // no segment yet / error: the model's client then holds the empty record: status U
                        comps += 1;
                        if exp["cOut"]["st"] != "U" {
                            drift = Some(format!("step {i}: real client returned an error, specification status {}", exp["cOut"]["st"]));
                            break;
                        }
                    }
                    Ok((Some((earliest, latest, stc)), log)) => {
                        comps += 1;
                        // the realtime clock was read at the instant of the log position holding CLOCK_REALTIME
                        let ri = log.iter().position(|id| *id == libc::CLOCK_REALTIME as i32).unwrap_or(0).min(at.len() - 1);
                        let (rnow, rerr) = at[ri];
                        let truth = (T0 + rnow) * G;
                        if stc != 0 && !(earliest <= truth && truth <= latest) {
                            add(&mut viol, "C01", "true-time-outside-interval", format!("status {stc}: interval [{earliest}, {latest}] does not contain true time {truth} (clock error {} ns at the realtime read, half-width {} ns)", rerr * UNIT, (latest - earliest) / 2));
                        }
                        let want = st_code(exp["cOut"]["st"].as_str().unwrap());
                        if stc != want {
                            add(&mut viol, "C06", "client-status", format!("client status {stc}, specification {want}"));
                        }
                        let half = (latest - earliest) / 2;
                        let want_half = exp["cOut"]["half"].as_i64().unwrap() as i128 * UNIT;
                        if stc != 0 && want != 0 && (half < want_half || half > want_half + 4) {
                            add(&mut viol, "C05", "client-half-width", format!("half-width {half} ns, specification {want_half} ns (+4)"));
                        }
                    }
                }
                if stop_now(&viol, stop_on) {
                    break;
                }
            }
            other => {
                drift = Some(format!("unknown action {other}"));
                break;
            }
        }
        if stop_now(&viol, stop_on) {
            break;
        }
    }
    (steps.len() - 1, comps, viol, drift)
}

/// stop at the first finding of a property the caller asked about (--stop-on); the others are data
fn stop_now(viol: &[Value], stop_on: &[String]) -> bool {
    viol.len() >= 12 || viol.iter().any(|v| stop_on.is_empty() || stop_on.iter().any(|p| v["property"] == p.as_str()))
}

fn replay_cmd(args: &[String]) -> Value {
    let file = args.get(2).expect("behaviours file");
    let stop_on: Vec<String> = arg(args, "--stop-on").map(|s| s.split(',').map(|x| x.to_string()).collect()).unwrap_or_default();
    let po = arg(args, "--poller").unwrap_or("mono_first".into());
    let co = arg(args, "--client").unwrap_or("real_first".into());
    let f = std::io::BufReader::new(std::fs::File::open(file).expect("open"));
    let (mut nb, mut steps, mut comps) = (0usize, 0usize, 0usize);
    let mut violations = vec![];
    let mut drifts = vec![];
    for line in f.lines() {
        let line = line.unwrap();
        if line.trim().is_empty() {
            continue;
        }
        let beh: Value = serde_json::from_str(&line).unwrap();
        let n = beh["n"].as_u64().unwrap_or(nb as u64);
        let (s, c, v, d) = replay_one(&beh, &format!("e2e{n}"), (&po, &co), &stop_on);
        steps += s;
        comps += c;
        if !v.is_empty() {
            if violations.len() < 20 {
                violations.push(json!({"behaviour": n, "violations": v, "steps": beh["steps"].as_array().unwrap().iter().map(|s| json!({"a": s["a"], "now": s["exp"]["now"], "err": s["exp"]["err"], "pMsg": s["exp"]["pMsg"], "seg": s["exp"]["seg"], "cOut": s["exp"]["cOut"]})).collect::<Vec<_>>()}));
            }
        } else if let Some(d) = d {
            if drifts.len() < 20 {
                drifts.push(json!({"behaviour": n, "drift": d}));
            }
        }
        nb += 1;
    }
    json!({"behaviours": nb, "steps": steps, "comparisons": comps, "violations": violations, "drifts": drifts})
}

// ------------------------------------------------------------------------------------------ random histories
fn explore_cmd(args: &[String]) -> Value {
    let seed: u64 = arg(args, "--seed").map(|s| s.parse().unwrap()).unwrap_or(1);
    let polls: usize = arg(args, "--polls").map(|s| s.parse().unwrap()).unwrap_or(2000);
    let stop_on: Vec<String> = arg(args, "--stop-on").map(|s| s.split(',').map(|x| x.to_string()).collect()).unwrap_or_default();
    let po = arg(args, "--poller").unwrap_or("mono_first".into());
    let co = arg(args, "--client").unwrap_or("real_first".into());
    let mut rng = StdRng::seed_from_u64(seed);
    let mut p = Pipeline::new(&format!("ex{seed}"));
    let mut violations: Vec<Value> = vec![];
    // world in nanoseconds: time `now_ns` since second 0, clock error `err_ns`, drifting at most DRIFT_PPB
    let mut now_ns: i128 = 0;
    let mut err_ns: i128 = rng.gen_range(-2_000_000..2_000_000);
    let mut alive = false;
    let mut last_good_ns: Option<i128> = None;
    let (mut asks, mut trusted, mut restarts, mut outages, mut neg_off) = (0u64, 0u64, 0u64, 0u64, 0u64);
    let mut samples = vec![];
    let mut min_margin: i128 = i128::MAX;
    // tight mode: after an exactly representable report without slack the oscillator drifts at the full configured
    // rate away from zero until the next synchronised report, so that true time sits on the edge of every interval
    let tight_dir = std::cell::Cell::new(0i128);
    let advance = |rng: &mut StdRng, now_ns: &mut i128, err_ns: &mut i128, d_ns: i128| {
        // drift anywhere within +-DRIFT_PPB over d_ns, biased to the extremes
        let max = d_ns * DRIFT_PPB as i128 / G;
        let dr = match rng.gen_range(0..4) {
            _ if tight_dir.get() != 0 => tight_dir.get() * max,
            0 => max,
            1 => -max,
            _ => rng.gen_range(-max..=max),
        };
        *now_ns += d_ns;
        *err_ns += dr;
    };
    let mut history: Vec<Value> = vec![];
    // (bound, instant of validity) of the recent answered reports, whatever their class
    let mut reports: Vec<(i64, i128)> = vec![];
    for poll in 0..polls {
        if !alive {
            if p.start().is_err() {
                break;
            }
            alive = true;
            restarts += 1;
            last_good_ns = None;
            history.push(json!({"ev": "start", "at_ns": now_ns.to_string()}));
        }
        // --- one poller iteration, with scheduling delays between its steps
        let t_first = now_ns;
        let err_first = err_ns;
        // cold-boot prologue: the daemon is started shortly after boot and chronyd has no sample yet (silent,
        // unsynchronised, stale): the place-holder record is read at uptimes between 5 s and 1000 s
        let prologue = poll < 3 && restarts == 1;
        let tight = !prologue && rng.gen_range(0..4) == 0;
        let d1 = if tight { 0 } else { [0, 1_000_000, 10_000_000, 300_000_000, 2 * G][rng.gen_range(0..5)] };
        if tight {
            // chronyd has just corrected the clock: the error is now a multiple of 2^-9 s (exact on the wire and in
            // ns), not larger in magnitude than before (a client may still be served the previous record)
            let mmax = err_ns.abs() / 1_953_125;
            let m = if mmax == 0 { 0 } else { rng.gen_range(0..=mmax.min(4)) };
            err_ns = if rng.gen_bool(0.5) { m } else { -m } * 1_953_125;
        }
        advance(&mut rng, &mut now_ns, &mut err_ns, d1);
        let t_second = now_ns;
        // chronyd's report is valid at the instant of the query: the second event in the code's order (clock
        // read, then query), the first one if the code queries first
        let err_at_reply = if po == "mono_first" { err_ns } else { err_first };
        let kind = if tight { 9 } else if prologue { [0, 2, 3][poll] } else { rng.gen_range(0..10) };
        let mut in_outage = false;
        let reply = match kind {
            0 | 1 => {
                in_outage = true;
                outages += 1;
                None
            }
            2 => Some(tracking(3, SystemTime::now(), cf(12345, -30), cf(999, -20))), // unsynchronised: garbage values
            3 => Some(tracking(0, SystemTime::now() - Duration::from_secs(10_000), cf(0, -30), cf(1, -30))), // stale
            4 => Some(tracking(77, SystemTime::now(), cf(0, -30), cf(0, -30))), // unusable
            _ if tight => {
                tight_dir.set(if err_at_reply < 0 { -1 } else { 1 });
                let m = (err_at_reply.abs() / 1_953_125) as i32;
                if err_at_reply < 0 {
                    neg_off += 1;
                }
                Some(tracking(rng.gen_range(0..3), SystemTime::now(), cf(if err_at_reply < 0 { -m } else { m }, -9), cf(0, -30)))
            }
            _ => {
                tight_dir.set(0);
                // valid synchronised report: |err| <= |off| + disp (+ delay/2 = 0), split at random, offset sign = sign of err
                let slack = rng.gen_range(0..50_000);
                let total = err_at_reply.abs() + slack;
                let off = if rng.gen_bool(0.5) { err_at_reply.abs() } else { rng.gen_range(0..=err_at_reply.abs()) };
                let rest = total - off;
                let c = cf_at_least(off);
                let corr = if err_at_reply < 0 { neg_off += 1; neg(c) } else { c };
                Some(tracking(rng.gen_range(0..3), SystemTime::now(), if off == 0 { cf(0, -30) } else { corr }, cf_at_least(rest.max(1))))
            }
        };
        if let Some(t) = reply.as_ref() {
            last_good_ns = Some(if po == "mono_first" { t_second } else { t_first });
            // the bound this report carries (|offset| + dispersion, delay 0), and the instant it was valid at
            let b = ((f64::from(t.current_correction).abs() + f64::from(t.root_dispersion)) * 1e9).ceil() as i64;
            reports.push((b, if po == "mono_first" { t_second } else { t_first }));
            if reports.len() > 64 {
                reports.remove(0);
            }
        }
        if kind >= 5 && !tight && rng.gen_range(0..3) == 0 {
            // chronyd corrects the clock after reporting: the error changes sign and does not grow
            err_ns = -err_ns * rng.gen_range(0..100) / 100;
        }
        let grace = in_outage && last_good_ns.map(|g| now_ns - g < 5 * G).unwrap_or(false);
        // the poller's clock is whole-second + ns resolution: use exact ns instants
        let (first_s, second_s) = (t_first, t_second);
        let msg = {
            // poll_once works in model seconds; here instants are ns: inline variant
            poll_once_ns(first_s, second_s, reply, grace, &po)
        };
        let Ok(msg) = msg else { break };
        history.push(json!({"ev": "poll", "mono_read_ns": t_first.to_string(), "query_ns": t_second.to_string(), "err_at_reply_ns": err_at_reply.to_string(), "kind": kind}));
        if history.len() > 12 {
            history.remove(0);
        }
        if let Some(rec) = p.deliver(msg) {
            // C12 (poller half, on the published record): the as-of instant is not later than the instant at which
            // the report that carries the published bound was valid - whichever report the daemon chose to track
            let (as_of, _, bound, _, _) = fields(&rec);
            let cands: Vec<i128> = reports.iter().filter(|(b, _)| (*b - bound).abs() <= 2).map(|(_, t)| *t).collect();
            if as_of != 0 && !cands.is_empty() {
                let latest = *cands.iter().max().unwrap();
                if as_of > M0 * G + latest && violations.iter().filter(|v| v["property"] == "C12").count() < 3 {
                    violations.push(json!({"property": "C12", "signature": "as-of-later-than-its-report",
                        "what": format!("poll {poll}: the published record pairs bound {bound} ns with as_of {as_of} ns, but the latest report carrying that bound was valid at {} ns: the as-of instant is not a reading taken before that request", M0 * G + latest),
                        "history": history.clone()}));
                }
            }
        }
        // --- clients ask at random and adversarial instants until the next poll
        let n_asks = if prologue { 2 } else { rng.gen_range(0..4) };
        let mut spent: i128 = 0;
        for ask_i in 0..n_asks {
            let gap = match if prologue { 6 + ask_i } else { rng.gen_range(0..6) } {
                6 => 5 * G + 1,
                7 => 100 * G,
                0 => 0,
                1 => 5 * G - 1 - spent.min(5 * G - 1),
                2 => 5 * G + 1,
                3 => rng.gen_range(0..G),
                4 => 999 * G,
                _ => rng.gen_range(0..20 * G),
            };
            advance(&mut rng, &mut now_ns, &mut err_ns, gap);
            spent += gap;
            let r_at = (now_ns, err_ns);
            let d = [0, 1_000, 5_000_000, G, 6 * G][rng.gen_range(0..5)];
            advance(&mut rng, &mut now_ns, &mut err_ns, d);
            let m_at = (now_ns, err_ns);
            let at = if co == "real_first" { vec![r_at, m_at] } else { vec![m_at, r_at] };
            match ask_ns(&mut p, at.clone(), rng.gen_range(0..10) == 0) {
                Err(e) => {
                    violations.push(json!({"property": "C14", "signature": "panic-in-now", "what": e}));
                }
                Ok(None) => (),
                Ok(Some((earliest, latest, stc, log))) => {
                    asks += 1;
                    let ri = log.iter().position(|id| *id == libc::CLOCK_REALTIME as i32).unwrap_or(0).min(1);
                    let (rnow, rerr) = at[ri];
                    let truth = T0 * G + rnow;
                    if stc != 0 {
                        trusted += 1;
                        min_margin = min_margin.min((truth - earliest).min(latest - truth));
                        if samples.len() < 3 {
                            samples.push(json!({"at_ns": rnow.to_string(), "clock_error_ns": rerr.to_string(), "status": stc, "half_width_ns": ((latest - earliest) / 2).to_string()}));
                        }
                        if !(earliest <= truth && truth <= latest) && violations.iter().filter(|v| v["property"] == "C01").count() < 5 {
                            violations.push(json!({"property": "C01", "signature": "true-time-outside-interval",
                                "what": format!("poll {poll}: status {stc}, clock error {rerr} ns at the realtime read, half-width {} ns: interval [{earliest}, {latest}] does not contain true time {truth}", (latest - earliest) / 2),
                                "history": history.clone()}));
                        }
                    }
                }
            }
        }
        // --- until the next poll; sometimes a long outage of the daemon itself or a restart
        let rest = match if prologue { 19 } else { rng.gen_range(0..20) } {
            0 => {
                p.die();
                alive = false;
                rng.gen_range(0..1200 * G)
            }
            1 => rng.gen_range(0..30 * G),
            _ => (G - spent.min(G)).max(0),
        };
        advance(&mut rng, &mut now_ns, &mut err_ns, rest);
        // stop at the first violation of a property the caller asked about (--stop-on C01,C12); others are kept as data
        if violations.iter().any(|v| stop_on.is_empty() || stop_on.iter().any(|p| v["property"] == p.as_str())) {
            break;
        }
    }
    json!({"polls": polls, "asks": asks, "min_margin_ns": min_margin.to_string(), "trusted_intervals": trusted, "restarts": restarts, "outages": outages, "negative_offsets": neg_off,
           "samples": samples, "violations": violations})
}

fn poll_once_ns(first_ns: i128, second_ns: i128, reply: Option<Tracking>, grace: bool, _order: &str) -> Result<Message, String> {
    let (mut mbox, dbox) = new_channel_web(vec![ChannelId::ClockErrorBoundPoller, ChannelId::ShmWriter, ChannelId::MainThread]);
    let rx_writer: Receiver<Message> = mbox.get_mailbox(&ChannelId::ShmWriter).unwrap();
    let _rx_main: Receiver<Message> = mbox.get_mailbox(&ChannelId::MainThread).unwrap();
    let rx = mbox.get_mailbox(&ChannelId::ClockErrorBoundPoller).unwrap();
    let ctx = Context { mbox: rx, dbox: dbox.clone(), channel_id: ChannelId::ClockErrorBoundPoller };
    dbox.send(&ChannelId::ClockErrorBoundPoller, Message::ThreadAbort).map_err(|e| e.to_string())?;
    let k = Arc::new(Mutex::new(0usize));
    let (k1, k2) = (k.clone(), k.clone());
    verif::set_clock(Some(Box::new(move |_id| {
        let mut n = k1.lock().unwrap();
        let now = if *n == 0 { first_ns } else { second_ns };
        *n += 1;
        ts(M0 * G + now)
    })));
    let res = std::panic::catch_unwind(std::panic::AssertUnwindSafe(|| {
        verif_poller::run_poller_scripted(
            ctx,
            Box::new(move || {
                *k2.lock().unwrap() += 1;
                reply
            }),
            Box::new(move || grace),
            None,
            Duration::from_millis(0),
        )
    }));
    verif::set_clock(None);
    if res.is_err() {
        return Err("poller iteration panicked".into());
    }
    rx_writer.try_recv().map_err(|_| "no message".to_string())
}

fn ask_ns(p: &mut Pipeline, at: Vec<(i128, i128)>, serve_cache: bool) -> Result<Option<(i128, i128, u8, Vec<i32>)>, String> {
    if p.client.is_none() {
        p.client = ClockBoundClient::new_with_path(p.path.to_str().unwrap()).ok();
    }
    let path = p.path.clone();
    let Some(c) = p.client.as_mut() else { return Ok(None) };
    let mut saved = None;
    if serve_cache {
        let b = std::fs::read(&path).map_err(|e| e.to_string())?;
        saved = Some(u16::from_ne_bytes([b[14], b[15]]));
        patch_gen(&path, saved.unwrap() | 1);
    }
    let k = Arc::new(Mutex::new((0usize, Vec::<i32>::new())));
    let k2 = k.clone();
    let at2 = at.clone();
    verif::set_clock(Some(Box::new(move |id| {
        let mut s = k2.lock().unwrap();
        let (now, err) = at2[s.0.min(at2.len() - 1)];
        s.0 += 1;
        s.1.push(id as i32);
        if id == libc::CLOCK_REALTIME { ts(T0 * G + now + err) } else { ts(M0 * G + now) }
    })));
    let r = std::panic::catch_unwind(std::panic::AssertUnwindSafe(|| c.now()));
    verif::set_clock(None);
    if let Some(g) = saved {
        patch_gen(&path, g);
    }
    let log = k.lock().unwrap().1.clone();
    match r {
        Err(_) => Err("now() panicked".into()),
        Ok(Err(_)) => Ok(None),
        Ok(Ok(x)) => Ok(Some((ns_of(x.earliest.as_ref()), ns_of(x.latest.as_ref()), x.clock_status as u8, log))),
    }
}

fn main() {
    let args: Vec<String> = std::env::args().collect();
    std::panic::set_hook(Box::new(|i| {
        if std::env::var("CB_DEBUG").is_ok() {
            eprintln!("[panic] {i}");
        }
    }));
    let out = match args.get(1).map(|s| s.as_str()) {
        Some("order") => order_cmd(),
        Some("replay") => replay_cmd(&args),
        Some("explore") => explore_cmd(&args),
        _ => {
            eprintln!("usage: e2e order|replay|explore ...");
            std::process::exit(2)
        }
    };
    println!("{}", out);
}
