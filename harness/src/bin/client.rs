//! client: conformance driver for ClockErrorBound::now() through the Rust client and the C client.
//!   client vectors --seed S --n N --out vec.ndjson [--cdriver <path>] [--grid-only]
//! Every vector is evaluated by the real `ClockBoundClient::now()` under a virtual clock on a real
//! segment written by the real `ShmWriter`, and (when a C driver is given) by `clockbound_now()`.
//! The ndjson output carries inputs and the Rust result for the TLC oracle (ClientBig.tla); this
//! program itself compares Rust vs C, checks monotonic growth on age pairs, the order of the two
//! clock reads, and treats panics as data.

use clock_bound_client::{ClockBoundClient, ClockBoundErrorKind};
use clock_bound_shm::{verif, ClockErrorBound, ClockStatus, ShmWrite, ShmWriter};
use rand::rngs::StdRng;
use rand::{Rng, SeedableRng};
use serde_json::{json, Value};
use std::cell::RefCell;
use std::collections::BTreeSet;
use std::io::{BufRead, BufReader, Write};
use std::process::{Child, ChildStdin, ChildStdout, Command, Stdio};
use std::rc::Rc;

const G: i128 = 1_000_000_000;
const BLUR: i128 = 1000;
const GRACE: i128 = 5 * G;

fn arg(args: &[String], name: &str) -> Option<String> {
    args.iter().position(|a| a == name).and_then(|i| args.get(i + 1).cloned())
}

fn limbs(mut x: u128) -> Vec<u64> {
    let mut v = vec![];
    while x > 0 {
        v.push((x % 1000) as u64);
        x /= 1000;
    }
    v
}
fn sv(x: i128) -> Value {
    json!({"n": x < 0, "m": limbs(x.unsigned_abs())})
}
fn ts(ns: i128) -> libc::timespec {
    libc::timespec { tv_sec: ns.div_euclid(G) as i64, tv_nsec: ns.rem_euclid(G) as i64 }
}
fn ns_of(t: &libc::timespec) -> i128 {
    t.tv_sec as i128 * G + t.tv_nsec as i128
}
fn status_of(s: u8) -> ClockStatus {
    match s {
        1 => ClockStatus::Synchronized,
        2 => ClockStatus::FreeRunning,
        _ => ClockStatus::Unknown,
    }
}

#[derive(Clone, Debug)]
struct Vector {
    as_of: i128,
    void_after: i128,
    bound: i64,
    drift: u32,
    status: u8,
    real: i128,
    mono: i128,
    class: String,
}

#[derive(Clone, Debug, PartialEq)]
enum Outcome {
    Ok { earliest: i128, latest: i128, status: u8 },
    Err { kind: String, errno: i32, detail: String },
    Panic(String),
}

struct CDriver {
    child: Child,
    stdin: ChildStdin,
    stdout: BufReader<ChildStdout>,
}
impl CDriver {
    fn spawn(path: &str) -> CDriver {
        let mut child = Command::new(path).stdin(Stdio::piped()).stdout(Stdio::piped()).spawn().expect("spawn C driver");
        let stdin = child.stdin.take().unwrap();
        let stdout = BufReader::new(child.stdout.take().unwrap());
        CDriver { child, stdin, stdout }
    }
    fn ask(&mut self, line: &str) -> Option<String> {
        writeln!(self.stdin, "{line}").ok()?;
        self.stdin.flush().ok()?;
        let mut s = String::new();
        match self.stdout.read_line(&mut s) {
            Ok(0) | Err(_) => None,
            Ok(_) => Some(s.trim().to_string()),
        }
    }
}
fn c_kind(k: i32) -> String {
    match k {
        1 => "Syscall",
        2 => "SegmentNotInitialized",
        3 => "SegmentMalformed",
        4 => "CausalityBreach",
        _ => "None",
    }
    .to_string()
}
fn parse_c(reply: &str) -> (Outcome, Vec<i32>) {
    let t: Vec<&str> = reply.split_whitespace().collect();
    if t.first() == Some(&"ok") && t.len() >= 6 {
        let e = t[1].parse::<i128>().unwrap() * G + t[2].parse::<i128>().unwrap();
        let l = t[3].parse::<i128>().unwrap() * G + t[4].parse::<i128>().unwrap();
        let st = t[5].parse::<u8>().unwrap();
        let reads = t.iter().skip(7).map(|x| x.parse::<i32>().unwrap()).collect();
        (Outcome::Ok { earliest: e, latest: l, status: st }, reads)
    } else if t.first() == Some(&"err") && t.len() >= 4 {
        (Outcome::Err { kind: c_kind(t[1].parse().unwrap()), errno: t[2].parse().unwrap(), detail: if t[3] == "-" { String::new() } else { t[3..].join(" ") } }, vec![])
    } else {
        (Outcome::Panic(format!("unparsable reply from the C driver: {reply}")), vec![])
    }
}

fn rust_now(client: &mut ClockBoundClient, v: &Vector, reads: &Rc<RefCell<Vec<i32>>>) -> Outcome {
    let (real, mono) = (ts(v.real), ts(v.mono));
    reads.borrow_mut().clear();
    let r2 = reads.clone();
    verif::set_clock(Some(Box::new(move |id| {
        r2.borrow_mut().push(id as i32);
        if id == libc::CLOCK_REALTIME { real } else { mono }
    })));
    let res = std::panic::catch_unwind(std::panic::AssertUnwindSafe(|| client.now()));
    verif::set_clock(None);
    match res {
        Err(p) => Outcome::Panic(p.downcast_ref::<String>().cloned().or_else(|| p.downcast_ref::<&str>().map(|s| s.to_string())).unwrap_or_default()),
        Ok(Ok(r)) => Outcome::Ok { earliest: ns_of(r.earliest.as_ref()), latest: ns_of(r.latest.as_ref()), status: r.clock_status as u8 },
        Ok(Err(e)) => Outcome::Err {
            kind: match e.kind {
                ClockBoundErrorKind::Syscall => "Syscall",
                ClockBoundErrorKind::SegmentNotInitialized => "SegmentNotInitialized",
                ClockBoundErrorKind::SegmentMalformed => "SegmentMalformed",
                ClockBoundErrorKind::CausalityBreach => "CausalityBreach",
            }
            .to_string(),
            errno: e.errno.0,
            detail: e.detail,
        },
    }
}

fn outcome_json(o: &Outcome) -> Value {
    match o {
        Outcome::Ok { earliest, latest, status } => json!({"kind": "Ok", "earliest": sv(*earliest), "latest": sv(*latest), "status": status}),
        Outcome::Err { kind, .. } => json!({"kind": kind, "earliest": sv(0), "latest": sv(0), "status": 0}),
        Outcome::Panic(m) => json!({"kind": format!("Panic: {m}"), "earliest": sv(0), "latest": sv(0), "status": 0}),
    }
}

/// the case grid (ClientCases): stored status x position of mono relative to as_of x drift class x void kind
fn grid(rng: &mut StdRng, out: &mut Vec<Vector>) {
    let asofs: [i128; 8] = [0, 1, 999_999_999, 12_345 * G + 678_901_234, 86_400 * G + 999_999_999, 2_000_000_000 * G + 5, 1000 * G, 7777 * G + 400];
    let drifts: [u32; 9] = [0, 1, 1000, 50_000, 999_999_999, 1_000_000_000, 1_000_000_001, u32::MAX, 123_456_789];
    let bounds: [i64; 5] = [0, 1, 123_456, 1 << 40, (1 << 60) - 1];
    for status in 0..3u8 {
        for (ai, as_of) in asofs.iter().enumerate() {
            for void_kind in 0..3 {
                let void_after = match void_kind {
                    0 => (as_of.div_euclid(G) + 1000) * G, // as the daemon writes it
                    1 => as_of + 2 * G,                      // earlier than the grace period
                    _ => as_of + 7 * G + 13,
                };
                let deltas: Vec<(i128, &str)> = vec![
                    (-BLUR - 1, "blur-1"), (-BLUR, "blur"), (-BLUR + 1, "blur+1"), (-1, "-1"), (0, "0"), (1, "+1"),
                    (GRACE - 1, "grace-1"), (GRACE, "grace"), (GRACE + 1, "grace+1"),
                    (void_after - as_of - 1, "void-1"), (void_after - as_of, "void"), (void_after - as_of + 1, "void+1"),
                    (3 * 3600 * G + 12_345_678_901, "hours"), (G / 3, "sub-second"), (-5 * G, "far-past"),
                ];
                // ages at which a narrowed or re-scaled age wraps (2^31 / 2^32 ns, us, ms; 2^53 ns): far beyond void-after
                let mut deltas = deltas;
                if ai % 3 == 1 {
                    for (w, wname) in [((1i128 << 32) + G, "wrap32ns"), ((1i128 << 32) * 1000 + G / 2, "wrap32us"), ((1i128 << 33) * 1000 + G, "wrap33us"),
                                       ((1i128 << 31) * 1000 + G, "wrap31us"), ((1i128 << 32) * 1_000_000 + G, "wrap32ms"), ((1i128 << 53) + 1, "wrap53ns")] {
                        deltas.push((w, wname));
                    }
                }
                for (d, dname) in deltas {
                    let mono = as_of + d;
                    if mono < 0 || mono >= (1i128 << 62) {
                        continue;
                    }
                    let di = rng.gen_range(0..drifts.len());
                    // the decisive ages with EVERY valid drift rate (0 included), the others with two
                    let key = dname.starts_with("wrap") || dname == "grace+1" || dname == "void+1" || dname == "hours";
                    let all: Vec<u32> = drifts.iter().copied().filter(|d| *d < 1_000_000_000).collect();
                    let two = vec![drifts[di], drifts[(ai + status as usize) % drifts.len()]];
                    for drift in if key && ai % 3 == 1 { all } else { two } {
                        let bound = bounds[rng.gen_range(0..bounds.len())];
                        let real = rng.gen_range(1_600_000_000i128..1_900_000_000) * G + [0, 1, 999_999_999, 500_000_000][rng.gen_range(0..4)];
                        let dclass = if drift == 0 { "d0" } else if drift < 1_000_000_000 { "dok" } else { "dbad" };
                        out.push(Vector { as_of: *as_of, void_after, bound, drift, status, real, mono,
                                          class: format!("st{status}/{dname}/{dclass}/v{void_kind}") });
                    }
                }
            }
        }
    }
}

fn random_vec(rng: &mut StdRng) -> Vector {
    let as_of = rng.gen_range(0i128..2_000_000_000) * G + rng.gen_range(0..G);
    let age: i128 = match rng.gen_range(0..6) {
        0 => rng.gen_range(0..G),
        1 => rng.gen_range(0..10 * G),
        2 => rng.gen_range(0..1100 * G),
        3 => rng.gen_range(0..100_000 * G),
        4 => -rng.gen_range(0..2000),
        _ => [GRACE - 1, GRACE, GRACE + 1][rng.gen_range(0..3)],
    };
    let void_after = if rng.gen_range(0..4) > 0 { (as_of.div_euclid(G) + 1000) * G } else { as_of + rng.gen_range(0..2000 * G) };
    let drift = match rng.gen_range(0..5) {
        0 => rng.gen_range(0..100_000),
        1 => rng.gen_range(0..1_000_000_000),
        2 => 999_999_999,
        3 => rng.gen::<u32>(),
        _ => 1000 * rng.gen_range(0..1000),
    };
    let bound = match rng.gen_range(0..4) {
        0 => rng.gen_range(0..1_000_000),
        1 => rng.gen_range(0..(1i64 << 40)),
        2 => rng.gen_range(0..(1i64 << 60)),
        _ => 0,
    };
    let real = rng.gen_range(0i128..2_100_000_000) * G + rng.gen_range(0..G);
    let mono = (as_of + age).max(0);
    Vector { as_of, void_after, bound, drift, status: rng.gen_range(0..3), real, mono, class: "random".into() }
}

fn main() {
    let args: Vec<String> = std::env::args().collect();
    std::panic::set_hook(Box::new(|i| {
        if std::env::var("CB_DEBUG").is_ok() {
            eprintln!("[panic] {i}");
        }
    }));
    let seed: u64 = arg(&args, "--seed").map(|s| s.parse().unwrap()).unwrap_or(1);
    let n: usize = arg(&args, "--n").map(|s| s.parse().unwrap()).unwrap_or(2000);
    let out = arg(&args, "--out").expect("--out");
    let cdriver = arg(&args, "--cdriver");
    let mut rng = StdRng::seed_from_u64(seed);
    let mut vecs = vec![];
    grid(&mut rng, &mut vecs);
    let grid_n = vecs.len();
    while vecs.len() < grid_n + n {
        vecs.push(random_vec(&mut rng));
    }
    let path = cbverif::seg::scratch_path("client");
    let mut writer = ShmWriter::new(&path).expect("ShmWriter::new");
    writer.write(&ClockErrorBound::new(ts(0), ts(0), 0, 0, 0, ClockStatus::Unknown));
    let mut client = ClockBoundClient::new_with_path(path.to_str().unwrap()).expect("client open");
    let mut cd = cdriver.as_ref().map(|p| CDriver::spawn(p));
    let mut layout = String::new();
    if let Some(c) = cd.as_mut() {
        layout = c.ask("layout").unwrap_or_default();
        let r = c.ask(&format!("open {}", path.display())).unwrap_or_default();
        assert_eq!(r, "ok", "C driver cannot open the segment");
    }
    let reads = Rc::new(RefCell::new(vec![]));
    let mut f = std::io::BufWriter::new(std::fs::File::create(&out).unwrap());
    let mut classes = BTreeSet::new();
    let (mut panics, mut c_mismatch, mut order_bad, mut mono_bad) = (vec![], vec![], vec![], vec![]);
    let mut kinds = std::collections::BTreeMap::<String, u64>::new();
    for (i, v) in vecs.iter().enumerate() {
        let rec = ClockErrorBound::new(ts(v.as_of), ts(v.void_after), v.bound, v.drift, 0, status_of(v.status));
        writer.write(&rec);
        let got = rust_now(&mut client, v, &reads);
        let rd = reads.borrow().clone();
        classes.insert(v.class.clone());
        let desc = json!({"id": i, "class": v.class, "rec": {"asOf": v.as_of.to_string(), "voidAfter": v.void_after.to_string(), "bound": v.bound, "drift": v.drift, "status": v.status}, "real": v.real.to_string(), "mono": v.mono.to_string()});
        *kinds.entry(match &got { Outcome::Ok { .. } => "Ok".to_string(), Outcome::Err { kind, .. } => kind.clone(), Outcome::Panic(_) => "Panic".into() }).or_insert(0) += 1;
        if let Outcome::Panic(m) = &got {
            if panics.len() < 10 {
                panics.push(json!({"vector": desc, "panic": m}));
            }
        }
        // order of the two clock reads (C12): realtime first, then monotonic, nothing else
        if !matches!(got, Outcome::Panic(_)) && !(rd.len() == 2 && rd[0] == libc::CLOCK_REALTIME as i32 && rd[1] != libc::CLOCK_REALTIME as i32) && v.drift < 1_000_000_000 {
            if order_bad.len() < 10 {
                order_bad.push(json!({"vector": desc, "reads": rd}));
            }
        }
        // the C client on the same segment at the same virtual instant
        if let Some(c) = cd.as_mut() {
            let (rt, mt) = (ts(v.real), ts(v.mono));
            match c.ask(&format!("now {} {} {} {}", rt.tv_sec, rt.tv_nsec, mt.tv_sec, mt.tv_nsec)) {
                None => {
                    if c_mismatch.len() < 10 && !matches!(got, Outcome::Panic(_)) {
                        c_mismatch.push(json!({"vector": desc, "rust": format!("{got:?}"), "c": "C driver died (crash in clockbound_now)"}));
                    }
                    // restart the driver
                    let mut nc = CDriver::spawn(cdriver.as_ref().unwrap());
                    let _ = nc.ask(&format!("open {}", path.display()));
                    *c = nc;
                }
                Some(reply) => {
                    let (cgot, creads) = parse_c(&reply);
                    let same = match (&got, &cgot) {
                        (Outcome::Err { kind: k1, errno: e1, detail: d1 }, Outcome::Err { kind: k2, errno: e2, detail: d2 }) => k1 == k2 && e1 == e2 && d1 == d2,
                        (a, b) => a == b,
                    };
                    // a panic / death of either side is C14's business (and depends on the build profile of that side:
                    // overflow checks), not a disagreement between the two libraries
                    let crashed = matches!(got, Outcome::Panic(_)) || matches!(cgot, Outcome::Panic(_));
                    if !same && !crashed && c_mismatch.len() < 10 {
                        c_mismatch.push(json!({"vector": desc, "rust": format!("{got:?}"), "c": format!("{cgot:?}")}));
                    }
                    if matches!(cgot, Outcome::Ok { .. }) && !(creads.len() == 2 && creads[0] == libc::CLOCK_REALTIME as i32 && creads[1] != libc::CLOCK_REALTIME as i32) && order_bad.len() < 10 {
                        order_bad.push(json!({"vector": desc, "c_reads": creads}));
                    }
                }
            }
        }
        // monotonic growth (O1): the same record, one second older
        if let Outcome::Ok { earliest, latest, .. } = &got {
            let mut v2 = v.clone();
            v2.mono += [1, 1000, G, 977 * G][i % 4];
            if let Outcome::Ok { earliest: e2, latest: l2, .. } = rust_now(&mut client, &v2, &reads) {
                if l2 - e2 < latest - earliest && mono_bad.len() < 10 {
                    mono_bad.push(json!({"vector": desc, "width": (latest - earliest).to_string(), "older_mono": v2.mono.to_string(), "older_width": (l2 - e2).to_string()}));
                }
            }
        }
        let line = json!({"id": i, "class": v.class,
            "rec": {"asOf": sv(v.as_of), "voidAfter": sv(v.void_after), "bound": sv(v.bound as i128), "drift": sv(v.drift as i128), "status": v.status},
            "real": sv(v.real), "mono": sv(v.mono), "got": outcome_json(&got), "human": desc});
        writeln!(f, "{line}").unwrap();
    }
    f.flush().unwrap();
    if let Some(mut c) = cd {
        let _ = c.ask("quit");
        let _ = c.child.wait();
    }
    drop(writer);
    cbverif::seg::cleanup(&path);
    println!("{}", json!({"vectors": vecs.len(), "grid": grid_n, "classes": classes.len(), "kinds": kinds, "panics": panics,
        "c_mismatch": c_mismatch, "order_bad": order_bad, "mono_bad": mono_bad, "layout": layout, "c_client": cdriver.is_some()}));
}
