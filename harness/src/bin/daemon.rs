//! daemon: conformance driver for the daemon's data path (C07 C08 C09 C10 C13).
//!   daemon bound  --seed S --n N --out bnd.ndjson        wire-value grid through extract_bound + Updater (C07)
//!   daemon class  --out cls.ndjson [--all]               leap x reference-time table (C10)
//!   daemon replay <behaviours.ndjson>                    Daemon.tla behaviours through the real poller iteration,
//!                                                        the real updater and the real segment (C08 C09 C13)
//!   daemon grace                                         real grace-period logic in real time (C13)
use cbverif::seg::{cleanup, file_state, scratch_path, words_of};
use chrony_candm::common::{ChronyAddr, ChronyFloat};
use chrony_candm::reply::Tracking;
use clock_bound_d::channels::new_channel_web;
use clock_bound_d::thread_manager::Context;
use clock_bound_d::{verif_poller, verif_writer, ChannelId, Message, PhcInfo};
use clock_bound_shm::{verif, ClockErrorBound, ShmReader, ShmWrite, ShmWriter};
use rand::rngs::StdRng;
use rand::{Rng, SeedableRng};
use serde_json::{json, Value};
use std::io::{BufRead, Write};
use std::sync::mpsc::Receiver;
use std::sync::{Arc, Mutex};
use std::time::{Duration, Instant, SystemTime};

const PHC_REFID: u32 = 0x5048_4330; // "PHC0"

fn arg(args: &[String], name: &str) -> Option<String> {
    args.iter().position(|a| a == name).and_then(|i| args.get(i + 1).cloned())
}
fn flag(args: &[String], name: &str) -> bool {
    args.iter().any(|a| a == name)
}

/// chrony wire float coef * 2^e (e = wire exponent - 25)
fn cf(coef: i32, e: i32) -> ChronyFloat {
    let exp = e + 25;
    assert!((-64..=63).contains(&exp) && (-(1 << 24)..(1 << 24)).contains(&coef));
    let w: u32 = (((exp as u32) & 0x7f) << 25) | ((coef as u32) & 0x01ff_ffff);
    let f: ChronyFloat = unsafe { std::mem::transmute(w) };
    debug_assert_eq!(f64::from(f), coef as f64 * 2f64.powi(e));
    f
}

fn tracking(leap: u16, ref_time: SystemTime, corr: ChronyFloat, delay: ChronyFloat, disp: ChronyFloat, interval: f64, ref_id: u32) -> Tracking {
    Tracking {
        ref_id,
        ip_addr: ChronyAddr::default(),
        stratum: 1,
        leap_status: leap,
        ref_time,
        current_correction: corr,
        last_offset: 0.0.into(),
        rms_offset: 0.0.into(),
        freq_ppm: 0.0.into(),
        resid_freq_ppm: 0.0.into(),
        skew_ppm: 0.0.into(),
        root_delay: delay,
        root_dispersion: disp,
        last_update_interval: interval.into(),
    }
}

fn limbs(mut x: u128) -> Vec<u64> {
    let mut v = vec![];
    while x > 0 {
        v.push((x % 1000) as u64);
        x /= 1000;
    }
    v
}
fn sv(x: i128) -> Value {
    json!({"n": x < 0, "m": limbs(x.unsigned_abs())})
}

/// ShmWrite sink that keeps every record
#[derive(Clone, Default)]
struct Capture(Arc<Mutex<Vec<ClockErrorBound>>>);
impl ShmWrite for Capture {
    fn write(&mut self, c: &ClockErrorBound) {
        self.0.lock().unwrap().push(*c);
    }
}
/// real ShmWriter + capture
struct Tee {
    real: ShmWriter,
    cap: Capture,
}
unsafe impl Send for Tee {}
impl ShmWrite for Tee {
    fn write(&mut self, c: &ClockErrorBound) {
        self.real.write(c);
        self.cap.0.lock().unwrap().push(*c);
    }
}

/// (as_of ns, void_after ns, bound, drift, status) of a record, from its raw words
fn fields(c: &ClockErrorBound) -> (i128, i128, i64, u32, u8) {
    let w = words_of(c);
    let g = 1_000_000_000i128;
    ((w[0] as i64) as i128 * g + (w[1] as i64) as i128, (w[2] as i64) as i128 * g + (w[3] as i64) as i128, w[4] as i64, (w[5] & 0xffff_ffff) as u32, (w[6] & 0xff) as u8)
}

// ------------------------------------------------------------------------------------------ C07
fn bound_cmd(args: &[String]) -> Value {
    let seed: u64 = arg(args, "--seed").map(|s| s.parse().unwrap()).unwrap_or(1);
    let n: usize = arg(args, "--n").map(|s| s.parse().unwrap()).unwrap_or(2000);
    let out = arg(args, "--out").expect("--out");
    let mut rng = StdRng::seed_from_u64(seed);
    let mut vecs: Vec<([i32; 2], [i32; 2], [i32; 2], i64, String)> = vec![];
    let coefs: [i32; 7] = [0, 1, 3, 12345, 7_340_032, (1 << 24) - 1, 1 << 23];
    let phcs: [i64; 4] = [0, 1, 12345, 1_000_000_000];
    // grid: every pair (offset coefficient incl. sign, exponent class) with a few delay/dispersion companions
    for &cc in coefs.iter() {
        for sign in [1, -1] {
            for &ce in [-64i32, -40, -30, -24, -12].iter() {
                for &(dc, de, pc, pe) in [(0, -30, 0, -30), (107_374, -30, 21_475, -30), (1, -64, 1, -64), ((1 << 24) - 1, -20, 3, -10), (5, -33, (1 << 24) - 1, -40)].iter() {
                    let c = if sign < 0 { -cc } else { cc };
                    let phc = phcs[(cc as usize + ce.unsigned_abs() as usize) % 4];
                    vecs.push(([dc, de], [pc, pe], [c, ce], phc, format!("grid/c{}{}e{}", if sign < 0 { "-" } else { "+" }, cc, ce)));
                }
            }
        }
    }
    // sums whose value in nanoseconds lies just above or just below an integer (by less than 10^-3 ns): the
    // round-up has to be exact there, a truncated intermediate shows
    for &e in [-34i32, -33, -31, -30, -28].iter() {
        let den: u128 = 1u128 << (-e);
        let (mut above, mut below) = (0, 0);
        let mut c: i32 = 8_000_001 + (seed % 1000) as i32 * 2;
        while c < (1 << 24) && (above < 40 || below < 40) {
            let frac = (c as u128 * 1_000_000_000u128) % den;
            if frac != 0 && frac * 1000 < den && above < 40 {
                above += 1;
                vecs.push(([0, -30], [0, -30], [if above % 2 == 0 { -c } else { c }, e], phcs[above % 4], format!("nearint/above/e{e}")));
            } else if frac != 0 && (den - frac) * 1000 < den && below < 40 {
                below += 1;
                vecs.push(([0, -30], [0, -30], [if below % 2 == 0 { -c } else { c }, e], phcs[below % 4], format!("nearint/below/e{e}")));
            }
            c += 2;
        }
    }
    let grid_n = vecs.len();
    while vecs.len() < grid_n + n {
        let e = |r: &mut StdRng| r.gen_range(-64..=-8);
        let nn = |r: &mut StdRng| if r.gen_range(0..6) == 0 { 0 } else { r.gen_range(0..(1 << 24)) };
        let c = if rng.gen_bool(0.5) { nn(&mut rng) } else { -nn(&mut rng) };
        vecs.push(([nn(&mut rng), e(&mut rng)], [nn(&mut rng), e(&mut rng)], [c, e(&mut rng)], phcs[rng.gen_range(0..4)], "random".into()));
    }
    let mut f = std::io::BufWriter::new(std::fs::File::create(&out).unwrap());
    let mut negative = vec![];
    let mut phc_bad = vec![];
    let mut status_bad = vec![];
    let mut classes = std::collections::BTreeSet::new();
    for (i, (d, p, c, phc, class)) in vecs.iter().enumerate() {
        let t = tracking(0, SystemTime::now(), cf(c[0], c[1]), cf(d[0], d[1]), cf(p[0], p[1]), 16.0, 0);
        let (raw, st) = verif_writer::bound_and_status(t);
        let cap = Capture::default();
        let mut up = verif_writer::Updater::new(Box::new(cap.clone()), 1000);
        up.clock_update(t, *phc, libc::timespec { tv_sec: 100, tv_nsec: 5 });
        let rec = *cap.0.lock().unwrap().last().unwrap();
        let (_, _, got, _, pst) = fields(&rec);
        classes.insert(format!("{}{}", class, if c[0] < 0 { "/neg" } else { "" }));
        if got < 0 && negative.len() < 5 {
            negative.push(json!({"id": i, "delay": d, "disp": p, "corr": c, "phc": phc, "published_bound": got}));
        }
        if got as i128 != raw as i128 + *phc as i128 && phc_bad.len() < 5 {
            phc_bad.push(json!({"id": i, "extract_bound": raw, "phc": phc, "published_bound": got}));
        }
        if (st != 1 || pst != 1) && status_bad.len() < 5 {
            status_bad.push(json!({"id": i, "status": st, "published_status": pst}));
        }
        let line = json!({"id": i, "class": class, "delay": d, "disp": p, "corr": c, "phc": phc, "got": sv(got as i128),
            "human": {"delay_s": d[0] as f64 * 2f64.powi(d[1]), "disp_s": p[0] as f64 * 2f64.powi(p[1]), "corr_s": c[0] as f64 * 2f64.powi(c[1]), "published_bound_ns": got}});
        writeln!(f, "{line}").unwrap();
    }
    f.flush().unwrap();
    json!({"vectors": vecs.len(), "grid": grid_n, "classes": classes.len(), "negative": negative, "phc_bad": phc_bad, "status_bad": status_bad})
}

// ------------------------------------------------------------------------------------------ C10
fn ref_time_for(pos: &str, interval: f64) -> SystemTime {
    let now = SystemTime::now();
    match pos {
        "future" => now + Duration::from_secs(100),
        // whole seconds plus a fraction of a millisecond ahead (a tolerance that looks at the sub-second part only
        // must not accept it), and barely ahead
        "futurefrac" => now + Duration::from_secs(3600) + Duration::from_micros(600),
        "futurenear" => now + Duration::from_millis(250),
        "fresh0" => now,
        // well inside / well outside 8 * interval (>= 250 ms away from the threshold; the boundary itself,
        // a set of measure zero under a real clock, is deliberately not decided)
        "fresh" => now - Duration::from_secs_f64((8.0 * interval - 1.0).max(0.0)),
        "stale" => now - Duration::from_secs_f64(8.0 * interval + 2.0),
        // 200 ms on either side of the threshold; a row that took longer than 150 ms of real time is redone
        "freshnear" => now - Duration::from_secs_f64((8.0 * interval - 0.2).max(0.0)),
        "stalenear" => now - Duration::from_secs_f64(8.0 * interval + 0.2),
        _ => now - Duration::from_secs(100_000),
    }
}

fn class_cmd(args: &[String]) -> Value {
    let out = arg(args, "--out").expect("--out");
    let all = flag(args, "--all");
    let mut leaps: Vec<u16> = if all { (0..=65535u32).map(|x| x as u16).collect() } else { (0..=300).collect() };
    if !all {
        for k in 0..16 {
            for d in [-1i32, 0, 1] {
                let v = (1i32 << k) + d;
                if (0..=65535).contains(&v) {
                    leaps.push(v as u16);
                }
            }
        }
        leaps.push(65535);
        leaps.sort();
        leaps.dedup();
    }
    let mut f = std::io::BufWriter::new(std::fs::File::create(&out).unwrap());
    let mut id = 0usize;
    for &leap in &leaps {
        for (pos, spec_pos) in [("future", "future"), ("futurefrac", "future"), ("futurenear", "future"), ("fresh0", "fresh"), ("fresh", "fresh"), ("freshnear", "fresh"), ("stalenear", "stale"), ("stale", "stale"), ("ancient", "stale")] {
            // the full leap range only with one interval; the small values with several (whole and fractional seconds)
            let intervals: &[f64] = if leap <= 8 { &[0.0, 0.1, 0.5, 1.0, 2.5, 4.0, 16.0, 1024.0] } else { &[16.0] };
            for &interval in intervals {
                // eight intervals below one second: every measurable age is "older than eight update intervals"
                if interval < 0.5 && (pos == "fresh0" || pos == "fresh" || pos == "freshnear") {
                    continue;
                }
                if (pos == "freshnear" || pos == "stalenear" || pos == "futurefrac" || pos == "futurenear") && leap > 8 && leap % 97 != 0 {
                    continue;
                }
              let mut attempts = 0;
              loop {
                attempts += 1;
                let row_start = std::time::Instant::now();
                let t = tracking(leap, ref_time_for(pos, interval), cf(1, -20), cf(1, -20), cf(1, -20), interval, 0);
                let (_, st) = verif_writer::bound_and_status(t);
                // through the real updater from each of the three FSM states (after a first measurement)
                let mut pubs = vec![];
                if leap <= 8 || leap % 97 == 0 {
                    for prior in 0..3u8 {
                        let cap = Capture::default();
                        let mut up = verif_writer::Updater::new(Box::new(cap.clone()), 1000);
                        let ts = libc::timespec { tv_sec: 50, tv_nsec: 0 };
                        up.clock_update(tracking(0, SystemTime::now(), cf(1, -20), cf(1, -20), cf(1, -20), 16.0, 0), 0, ts); // measured, state S
                        match prior {
                            0 => up.missing_update(false), // -> U
                            2 => up.missing_update(true),  // -> F
                            _ => (),
                        }
                        up.clock_update(tracking(leap, ref_time_for(pos, interval), cf(1, -20), cf(1, -20), cf(1, -20), interval, 0), 0, ts);
                        let rec = *cap.0.lock().unwrap().last().unwrap();
                        pubs.push(fields(&rec).4);
                    }
                }
                // from a fresh updater (no measurement yet): anything but a Synchronized class must publish Unknown (C09)
                let mut pub0 = 9u8;
                if leap <= 8 {
                    let cap = Capture::default();
                    let mut up = verif_writer::Updater::new(Box::new(cap.clone()), 1000);
                    up.clock_update(tracking(leap, ref_time_for(pos, interval), cf(1, -20), cf(1, -20), cf(1, -20), interval, 0), 0, libc::timespec { tv_sec: 50, tv_nsec: 0 });
                    pub0 = fields(cap.0.lock().unwrap().last().unwrap()).4;
                }
                if pos == "freshnear" && row_start.elapsed() > Duration::from_millis(150) && attempts < 20 {
                    continue; // the process was stalled: the age of the reference time at classification is not known well enough
                }
                writeln!(f, "{}", json!({"id": id, "leap": leap, "refPos": spec_pos, "pos": pos, "interval": interval, "got": st, "pub": pubs, "pub0": pub0})).unwrap();
                id += 1;
                break;
              }
            }
        }
    }
    // sequences: the classification of a report depends on that report only. Same reference time and leap status
    // twice, the update interval shrinking in between so that the second report is older than eight intervals.
    let mut seq_bad = vec![];
    for (age, i1, i2, want2) in [(10u64, 16.0f64, 1.0f64, 2u8), (10, 1.0, 16.0, 1), (100, 64.0, 4.0, 2)] {
        let cap = Capture::default();
        let mut up = verif_writer::Updater::new(Box::new(cap.clone()), 1000);
        let rt = SystemTime::now() - Duration::from_secs(age);
        let ts = libc::timespec { tv_sec: 50, tv_nsec: 0 };
        up.clock_update(tracking(0, SystemTime::now(), cf(1, -20), cf(1, -20), cf(1, -20), 16.0, 0), 0, ts);
        up.clock_update(tracking(1, rt, cf(1, -20), cf(1, -20), cf(1, -20), i1, 0), 0, ts);
        up.clock_update(tracking(1, rt, cf(1, -20), cf(1, -20), cf(1, -20), i2, 0), 0, ts);
        let got = fields(cap.0.lock().unwrap().last().unwrap()).4;
        if got != want2 {
            seq_bad.push(json!({"reference_time_age_s": age, "interval_first": i1, "interval_second": i2, "published_status_after_second": got, "expected": want2}));
        }
    }
    f.flush().unwrap();
    json!({"rows": id, "leaps": leaps.len(), "all": all, "seq_bad": seq_bad})
}

// ------------------------------------------------------------------------------------------ replay (C08 C09 C13)
fn kind_of(m: &Message) -> (&'static str, i64, Option<libc::timespec>) {
    match m {
        Message::ClockErrorBoundData((_, phc, as_of)) => ("Data", *phc, Some(*as_of)),
        Message::ChronyNotRespondingGracePeriod => ("NoReplyGrace", 0, None),
        Message::ChronyNotResponding => ("NoReply", 0, None),
        Message::PhcErrorBoundRetrievalFailedGracePeriod => ("PhcFailGrace", 0, None),
        Message::PhcErrorBoundRetrievalFailed => ("PhcFail", 0, None),
        _ => ("other", 0, None),
    }
}

/// virtual monotonic clock: model second s <-> (base + s) s + NS ns (non-zero ns: void_after rounding is exercised).
/// The base (machine uptime at model time 0) varies with the behaviour: long up, just booted, up for ten minutes -
/// the place-holder as-of of 0 is "recent" only on a machine that has just booted.
static BASE_V: std::sync::atomic::AtomicI64 = std::sync::atomic::AtomicI64::new(5000);
fn base() -> i64 {
    BASE_V.load(std::sync::atomic::Ordering::Relaxed)
}
const NS: i64 = 123_456_789;
fn vts(s: i64) -> libc::timespec {
    libc::timespec { tv_sec: base() + s, tv_nsec: NS }
}

struct Script {
    reply: Option<Tracking>,
    now_at_query: i64,
    grace: bool,
}

/// one real iteration of run_clock_error_bound_poller with a scripted chrony; returns the message sent to the writer
fn poll_once(now_at_mono: i64, script: Script, phc_info: Option<PhcInfo>) -> Result<Message, String> {
    let (mut mbox, dbox) = new_channel_web(vec![ChannelId::ClockErrorBoundPoller, ChannelId::ShmWriter, ChannelId::MainThread]);
    let rx_writer: Receiver<Message> = mbox.get_mailbox(&ChannelId::ShmWriter).unwrap();
    let _rx_main: Receiver<Message> = mbox.get_mailbox(&ChannelId::MainThread).unwrap();
    let rx = mbox.get_mailbox(&ChannelId::ClockErrorBoundPoller).unwrap();
    let ctx = Context { mbox: rx, dbox: dbox.clone(), channel_id: ChannelId::ClockErrorBoundPoller };
    // exactly one iteration: the abort message is already waiting when the loop reaches recv_timeout
    dbox.send(&ChannelId::ClockErrorBoundPoller, Message::ThreadAbort).map_err(|e| e.to_string())?;
    let clock = Arc::new(Mutex::new(now_at_mono));
    let reads = Arc::new(Mutex::new(Vec::<(i32, i64)>::new()));
    {
        let clock = clock.clone();
        let reads = reads.clone();
        verif::set_clock(Some(Box::new(move |id| {
            let s = *clock.lock().unwrap();
            reads.lock().unwrap().push((id as i32, s));
            vts(s)
        })));
    }
    let reply = script.reply;
    let nq = script.now_at_query;
    let c2 = clock.clone();
    let grace = script.grace;
    let res = std::panic::catch_unwind(std::panic::AssertUnwindSafe(|| {
        verif_poller::run_poller_scripted(
            ctx,
            Box::new(move || {
                *c2.lock().unwrap() = nq; // scheduling delay between the clock read and the query
                reply
            }),
            Box::new(move || grace),
            phc_info,
            Duration::from_millis(0),
        )
    }));
    verif::set_clock(None);
    if res.is_err() {
        return Err("poller iteration panicked".into());
    }
    let rd = reads.lock().unwrap().clone();
    if rd.len() != 1 || rd[0].1 != now_at_mono {
        return Err(format!("C12: poller clock reads {:?}: expected exactly one monotonic read before the query", rd));
    }
    rx_writer.try_recv().map_err(|_| "poller iteration sent no message to the writer".to_string())
}

fn status_code(s: &str) -> u8 {
    match s {
        "S" => 1,
        "F" => 2,
        _ => 0,
    }
}

fn replay_one(beh: &Value, tag: &str, stop_on: &[String]) -> (usize, usize, Vec<Value>, Option<String>) {
    // returns (steps, comparisons, violations, drift)
    let steps = beh["steps"].as_array().unwrap();
    let path = scratch_path(tag);
    let phc_file = path.with_extension("phc");
    let mut viol: Vec<Value> = vec![];
    let mut drift: Option<String> = None;
    let mut comps = 0usize;
    let phc_configured = beh["hdr"]["consts"]["PhcConfigured"].as_bool().unwrap_or(true);
    let drift_ppb = beh["hdr"]["consts"]["Drift"].as_u64().unwrap_or(50_000) as u32;
    let phc_info = if phc_configured { Some(PhcInfo { refid: PHC_REFID, sysfs_error_bound_path: phc_file.clone() }) } else { None };
    let mut updater: Option<verif_writer::Updater> = None;
    let mut cap = Capture::default();
    let mut reader: Option<ShmReader> = None;
    let mut now_at_mono = 0i64;
    let mut pending_reply: Option<Option<Tracking>> = None;
    let mut now_at_query = 0i64;
    let mut real_mbox: std::collections::VecDeque<Message> = Default::default();
    let mut measured_real = false;
    // bound (PHC term included) of every report handed to the updater so far, whatever its class
    let mut seen_bounds: std::collections::HashSet<i64> = std::collections::HashSet::new();
    let mut ref_times: std::collections::HashMap<(String, u64), SystemTime> = std::collections::HashMap::new();
    let mut add = |viol: &mut Vec<Value>, p: &str, sig: &str, what: String| {
        if viol.len() < 12 {
            viol.push(json!({"property": p, "signature": sig, "what": what}));
        }
    };
    for (i, st) in steps.iter().enumerate().skip(1) {
        let a = st["a"].as_str().unwrap();
        let exp = &st["exp"];
        let now = exp["now"].as_i64().unwrap();
        match a {
            "Tick" | "PollWake" => (),
            "DaemonStart" => {
                // warm or cold start of the real writer on the same file; fresh updater
                let w = match ShmWriter::new(&path) {
                    Ok(w) => w,
                    Err(e) => {
                        drift = Some(format!("ShmWriter::new failed: {e}"));
                        break;
                    }
                };
                cap = Capture::default();
                updater = Some(verif_writer::Updater::new(Box::new(Tee { real: w, cap: cap.clone() }), drift_ppb));
                real_mbox.clear();
                measured_real = false;
            }
            "DaemonDie" => {
                updater = None;
            }
            "PollReadMono" => now_at_mono = now,
            "PollQuery" => {
                now_at_query = now;
                let v = &st["v"];
                pending_reply = Some(if v["kind"] == "none" {
                    None
                } else {
                    let leap = match v["leap"].as_u64().unwrap() {
                        4 => (4 + (i as u32 * 7919) % 60000) as u16, // "any other value"
                        l => l as u16,
                    };
                    // the update interval varies with the step (whole and fractional seconds); the reference time is
                    // placed relative to eight times that interval
                    let interval = [16.0, 0.5, 2.5, 1.0, 64.0][i % 5];
                    // chronyd's reference time only moves when it updates the clock: reports of one behaviour (executed
                    // within milliseconds) in the same position and with the same update interval carry the SAME reference time
                    let pos = v["refPos"].as_str().unwrap().to_string();
                    let rt = *ref_times.entry((pos.clone(), (interval * 10.0) as u64)).or_insert_with(|| ref_time_for(&pos, interval));
                    // bound b ns, exactly: dispersion = b * 2^-30 s is not integral in ns; use the offset/delay/disp split
                    // b = 7812500 * k  <->  k * 2^-7 s of dispersion
                    let b = v["b"].as_i64().unwrap();
                    let k = (b / 7_812_500) as i32;
                    let refid = if v["refMatch"].as_bool().unwrap() { PHC_REFID } else { 0x7f7f_0101 };
                    Some(tracking(leap, rt, cf(0, -30), cf(0, -30), cf(k, -7), interval, refid))
                });
            }
            "PollDecide" => {
                let m = &st["v"];
                let kind = m["kind"].as_str().unwrap();
                if kind == "Data" {
                    seen_bounds.insert(m["rep"]["b"].as_i64().unwrap_or(0) + m["phc"].as_i64().unwrap_or(0));
                }
                // PHC file as the model chose: readable with the value, or unreadable
                let _ = std::fs::remove_file(&phc_file);
                // (when the report's reference is not the PHC, the file is irrelevant by specification:
                // make it unreadable half of the time)
                let ref_match = m["rep"]["refMatch"].as_bool().unwrap_or(false);
                if kind == "Data" && phc_configured && (ref_match || i % 2 == 1) {
                    std::fs::write(&phc_file, format!("{}\n", m["phc"].as_i64().unwrap())).unwrap();
                }
                let grace = exp["grace"].as_bool().unwrap_or(false) || kind.ends_with("Grace");
                let grace = if kind == "NoReply" || kind == "PhcFail" { false } else { grace };
                let script = Script { reply: pending_reply.take().unwrap_or(None), now_at_query, grace };
                match poll_once(now_at_mono, script, phc_info.clone()) {
                    Err(e) => {
                        if e.starts_with("C12") {
                            add(&mut viol, "C12", "poller-clock-read-order", e);
                        } else {
                            drift = Some(format!("step {i} PollDecide: {e}"));
                        }
                        break;
                    }
                    Ok(msg) => {
                        let (rk, rphc, ras) = kind_of(&msg);
                        comps += 1;
                        if rk != kind {
                            add(&mut viol, "C13", "message-selection", format!("poll outcome (reply {}, PHC configured {}, refid match {}, PHC file {}, within grace {}) produced message {rk}, specification says {kind}",
                                m["rep"]["kind"], phc_configured, m["rep"]["refMatch"], if kind == "Data" { "readable" } else { "unreadable/irrelevant" }, grace));
                            break;
                        }
                        if kind == "Data" {
                            if rphc != m["phc"].as_i64().unwrap() {
                                add(&mut viol, "C13", "phc-bound", format!("PHC error bound in the message is {rphc}, specification says {}", m["phc"]));
                                break;
                            }
                            let want = vts(m["asOf"].as_i64().unwrap());
                            let got = ras.unwrap();
                            if (got.tv_sec, got.tv_nsec) != (want.tv_sec, want.tv_nsec) {
                                add(&mut viol, "C12", "as-of-not-before-query", format!("as_of in the message is ({}, {}), the monotonic reading taken before the query was ({}, {})", got.tv_sec, got.tv_nsec, want.tv_sec, want.tv_nsec));
                                break;
                            }
                        }
                        real_mbox.push_back(msg);
                    }
                }
            }
            "UpdRecv" => {
                let Some(up) = updater.as_mut() else {
                    drift = Some("UpdRecv without a live updater".into());
                    break;
                };
                let Some(msg) = real_mbox.pop_front() else {
                    drift = Some("UpdRecv with an empty real mailbox".into());
                    break;
                };
                let before = cap.0.lock().unwrap().len();
                match msg {
                    Message::ClockErrorBoundData((t, phc, as_of)) => up.clock_update(t, phc, as_of),
                    Message::ChronyNotRespondingGracePeriod | Message::PhcErrorBoundRetrievalFailedGracePeriod => up.missing_update(true),
                    Message::ChronyNotResponding | Message::PhcErrorBoundRetrievalFailed => up.missing_update(false),
                    _ => (),
                }
                let recs = cap.0.lock().unwrap().clone();
                comps += 1;
                if recs.len() != before + 1 {
                    add(&mut viol, "C08", "outcome-not-published", format!("processing {:?} produced {} publications", st["v"], recs.len() - before));
                    break;
                }
                let (as_of, void_after, bound, dr, stc) = fields(recs.last().unwrap());
                let p = &exp["pub"];
                let g = 1_000_000_000i128;
                let measured = exp["measured"].as_bool().unwrap();
                let want_asof = if measured { (base() + p["asOf"].as_i64().unwrap()) as i128 * g + NS as i128 } else { 0 };
                let want_void = if measured { (base() + p["asOf"].as_i64().unwrap() + 1000) as i128 * g } else { 1000 * g };
                let want_bound = p["bound"].as_i64().unwrap();
                let want_st = status_code(p["status"].as_str().unwrap());
                let out_cls = st["v"]["cls"].as_str().unwrap_or("U");
                if st["v"]["kind"] == "Data" && out_cls == "S" {
                    measured_real = true;
                }
                // C09: nothing but Unknown before a first synchronised report
                if !measured_real && stc != 0 {
                    add(&mut viol, "C09", "trust-before-first-measurement", format!("record published before any synchronised report has status {stc} (bound {bound}, as_of {as_of}) after outcome {:?}", st["v"]));
                }
                if !measured_real {
                    // ... and a client evaluating it shortly after boot (uptime 6 s .. 999 s) sees Unknown too
                    let rec = *recs.last().unwrap();
                    for up_s in [6i64, 999] {
                        verif::set_clock(Some(Box::new(move |id| {
                            if id == libc::CLOCK_REALTIME { libc::timespec { tv_sec: 1_700_000_000, tv_nsec: 0 } } else { libc::timespec { tv_sec: up_s, tv_nsec: 0 } }
                        })));
                        let r = rec.now();
                        verif::set_clock(None);
                        if let Ok((_, _, s)) = r {
                            if s as u8 != 0 {
                                add(&mut viol, "C09", "client-trusts-placeholder", format!("client at uptime {up_s} s reports status {} for the record published before any synchronised report", s as u8));
                            }
                        }
                    }
                }
                if bound != want_bound && bound != 0 && !seen_bounds.contains(&bound) {
                    // not the bound (PHC term included) of ANY report handed to the updater so far: the value is wrong,
                    // not merely the choice of report (C07's business as well as C08's)
                    add(&mut viol, "C07", "bound-of-no-report", format!("published bound {bound} is not the bound (PHC term included) of any report so far {:?}; the latest synchronised report gives {want_bound}; outcome {:?}", seen_bounds, st["v"]));
                }
                if as_of != want_asof || bound != want_bound {
                    add(&mut viol, "C08", "bound-asof-not-tracking", format!("published (bound {bound}, as_of {as_of}) after outcome {:?}; the latest synchronised report gives (bound {want_bound}, as_of {want_asof})", st["v"]));
                }
                if void_after != want_void {
                    add(&mut viol, "C08", "void-after", format!("void_after {void_after}, expected as_of.sec + 1000 s = {want_void}"));
                }
                if dr != drift_ppb {
                    add(&mut viol, "C08", "drift-not-copied", format!("max_drift_ppb {dr}, configured {drift_ppb}"));
                }
                if measured_real && stc != want_st {
                    add(&mut viol, "C08", "status-for-outcome", format!("status {stc} after outcome {:?}, documented status {want_st}", st["v"]));
                }
                // what a client reads back from the real segment
                if reader.is_none() {
                    let c = std::ffi::CString::new(path.to_string_lossy().as_bytes()).unwrap();
                    reader = ShmReader::new(&c).ok();
                }
                if let Some(r) = reader.as_mut() {
                    if let Ok(snap) = r.snapshot() {
                        comps += 1;
                        if words_of(snap) != words_of(recs.last().unwrap()) {
                            add(&mut viol, "C08", "segment-differs-from-publication", "a reader's snapshot differs from the record handed to the writer".into());
                        }
                    }
                }
                // stop at the first finding of a property the caller asked about (--stop-on); the others are data
                if viol.iter().any(|v| stop_on.is_empty() || stop_on.iter().any(|p| v["property"] == p.as_str())) || viol.len() >= 12 {
                    break;
                }
            }
            other => {
                drift = Some(format!("unknown action {other}"));
                break;
            }
        }
    }
    drop(reader);
    drop(updater);
    let _ = std::fs::remove_file(&phc_file);
    let _ = file_state(&path);
    cleanup(&path);
    (steps.len() - 1, comps, viol, drift)
}

fn replay_cmd(args: &[String]) -> Value {
    let file = args.get(2).expect("behaviours file");
    let stop_on: Vec<String> = arg(args, "--stop-on").map(|s| s.split(',').map(|x| x.to_string()).collect()).unwrap_or_default();
    let f = std::io::BufReader::new(std::fs::File::open(file).expect("open"));
    let (mut nb, mut steps, mut comps) = (0usize, 0usize, 0usize);
    let mut violations = vec![];
    let mut drifts = vec![];
    for line in f.lines() {
        let line = line.unwrap();
        if line.trim().is_empty() {
            continue;
        }
        let beh: Value = serde_json::from_str(&line).unwrap();
        let n = beh["n"].as_u64().unwrap_or(nb as u64);
        BASE_V.store([5000, 7, 600][(n % 3) as usize], std::sync::atomic::Ordering::Relaxed);
        let (s, c, v, d) = replay_one(&beh, &format!("dr{n}"), &stop_on);
        steps += s;
        comps += c;
        if !v.is_empty() {
            if violations.len() < 20 {
                violations.push(json!({"behaviour": n, "violations": v, "steps": beh["steps"].as_array().unwrap().iter().map(|s| json!({"a": s["a"], "v": s["v"]})).collect::<Vec<_>>()}));
            }
        } else if let Some(d) = d {
            if drifts.len() < 20 {
                drifts.push(json!({"behaviour": n, "drift": d}));
            }
        }
        nb += 1;
    }
    json!({"behaviours": nb, "steps": steps, "comparisons": comps, "violations": violations, "drifts": drifts, "errors": []})
}

// ------------------------------------------------------------------------------------------ grace (C13, real time)
#[derive(Clone)]
struct Poll {
    /// seconds after scenario start at which this poll's query returns
    at: f64,
    /// how long the query itself blocks before returning
    blocks: f64,
    answer: bool,
    phc_readable: bool,
}

fn grace_scenario(name: &str, polls: Vec<Poll>, phc: bool) -> Value {
    let (mut mbox, dbox) = new_channel_web(vec![ChannelId::ClockErrorBoundPoller, ChannelId::ShmWriter, ChannelId::MainThread]);
    let rx_writer: Receiver<Message> = mbox.get_mailbox(&ChannelId::ShmWriter).unwrap();
    let _rx_main: Receiver<Message> = mbox.get_mailbox(&ChannelId::MainThread).unwrap();
    let rx = mbox.get_mailbox(&ChannelId::ClockErrorBoundPoller).unwrap();
    let ctx = Context { mbox: rx, dbox: dbox.clone(), channel_id: ChannelId::ClockErrorBoundPoller };
    let path = scratch_path(&format!("grace_{name}"));
    let phc_file = path.with_extension("phc");
    let phc_info = if phc { Some(PhcInfo { refid: PHC_REFID, sysfs_error_bound_path: phc_file.clone() }) } else { None };
    let t0 = Instant::now();
    let log: Arc<Mutex<Vec<(usize, f64, bool)>>> = Arc::new(Mutex::new(vec![])); // (poll index, time the query returned, answered)
    let plan = polls.clone();
    let idx = Arc::new(Mutex::new(0usize));
    let (log2, idx2, dbox2, phc2) = (log.clone(), idx.clone(), dbox.clone(), phc_file.clone());
    let h = std::thread::spawn(move || {
        verif_poller::run_poller_hybrid(
            ctx,
            Box::new(move || {
                let i = *idx2.lock().unwrap();
                if i >= plan.len() {
                    let _ = dbox2.send(&ChannelId::ClockErrorBoundPoller, Message::ThreadAbort);
                    return None;
                }
                let p = &plan[i];
                // the query starts at (at - blocks) and returns at `at`
                let start = p.at - p.blocks;
                let el = t0.elapsed().as_secs_f64();
                if el < start {
                    std::thread::sleep(Duration::from_secs_f64(start - el));
                }
                let _ = std::fs::remove_file(&phc2);
                if p.phc_readable {
                    let _ = std::fs::write(&phc2, "777\n");
                }
                std::thread::sleep(Duration::from_secs_f64(p.blocks));
                log2.lock().unwrap().push((i, t0.elapsed().as_secs_f64(), p.answer));
                *idx2.lock().unwrap() = i + 1;
                if i + 1 == plan.len() {
                    let _ = dbox2.send(&ChannelId::ClockErrorBoundPoller, Message::ThreadAbort);
                }
                if p.answer { Some(tracking(0, SystemTime::now(), cf(0, -30), cf(0, -30), cf(1, -7), 16.0, PHC_REFID)) } else { None }
            }),
            phc_info,
            Duration::from_millis(5),
        );
    });
    let _ = h.join();
    let msgs: Vec<Message> = rx_writer.try_iter().collect();
    let lg = log.lock().unwrap().clone();
    let _ = std::fs::remove_file(&phc_file);
    cleanup(&path);
    // oracle: time since the last answered query at the moment each query returned
    let mut last_good: Option<f64> = None;
    let mut rows = vec![];
    let mut viol = vec![];
    for (k, (i, at, answered)) in lg.iter().enumerate() {
        let Some(m) = msgs.get(k) else {
            viol.push(json!({"property": "C13", "signature": "no-message", "what": format!("scenario {name}: poll {i} produced no message")}));
            break;
        };
        let (kind, phcv, _) = kind_of(m);
        if *answered {
            last_good = Some(*at);
        }
        let since = last_good.map(|g| at - g);
        let p = &polls[*i];
        let expect: Vec<&str> = if *answered {
            if phc && !p.phc_readable {
                vec!["PhcFailGrace"] // the answer itself is the last good answer: age 0
            } else {
                vec!["Data"]
            }
        } else {
            match since {
                None => vec!["NoReply"],
                Some(s) if s < 4.6 => vec!["NoReplyGrace"],
                Some(s) if s > 5.4 => vec!["NoReply"],
                _ => vec!["NoReplyGrace", "NoReply"],
            }
        };
        rows.push(json!({"poll": i, "returned_at_s": (at * 1000.0).round() / 1000.0, "answered": answered, "since_last_good_s": since, "message": kind, "phc": phcv}));
        if !expect.contains(&kind) {
            viol.push(json!({"property": "C13", "signature": "grace-schedule", "what": format!("scenario {name}: poll {i} (query returned {at:.2} s after start, answered {answered}, last good answer {:?} s earlier) produced {kind}, expected {:?}", since, expect)}));
        }
        if kind == "Data" && phc && phcv != 777 {
            viol.push(json!({"property": "C13", "signature": "phc-bound", "what": format!("scenario {name}: PHC is the reference and its error bound file holds 777, message carries {phcv}")}));
        }
    }
    json!({"scenario": name, "rows": rows, "violations": viol})
}

fn grace_cmd(_args: &[String]) -> Value {
    let p = |at: f64, blocks: f64, answer: bool, phc_readable: bool| Poll { at, blocks, answer, phc_readable };
    let scenarios: Vec<(&str, Vec<Poll>, bool)> = vec![
        ("startup-silence", vec![p(0.05, 0.0, false, true), p(1.0, 0.0, false, true), p(4.0, 0.0, false, true)], false),
        ("outage", vec![p(0.1, 0.0, true, true), p(1.1, 0.0, false, true), p(4.3, 0.0, false, true), p(5.9, 0.0, false, true), p(7.0, 0.0, false, true)], false),
        ("outage-recover-outage", vec![p(0.1, 0.0, true, true), p(5.9, 0.0, false, true), p(6.3, 0.0, true, true), p(7.3, 0.0, false, true), p(12.2, 0.0, false, true)], false),
        ("slow-failing-query", vec![p(0.1, 0.0, true, true), p(3.0, 1.0, false, true), p(5.9, 1.8, false, true)], false),
        ("failed-polls-do-not-extend-grace", vec![p(0.1, 0.0, true, true), p(2.0, 0.0, false, true), p(4.0, 0.0, false, true), p(6.2, 0.0, false, true)], false),
        ("phc-unreadable", vec![p(0.1, 0.0, true, true), p(1.0, 0.0, true, false), p(2.0, 0.0, true, true), p(3.0, 0.0, false, true)], true),
        ("startup-then-good", vec![p(0.1, 0.0, false, true), p(0.5, 0.0, true, true), p(1.5, 0.0, false, true)], false),
    ];
    let hs: Vec<_> = scenarios.into_iter().map(|(n, pl, phc)| std::thread::spawn(move || grace_scenario(n, pl, phc))).collect();
    let res: Vec<Value> = hs.into_iter().map(|h| h.join().unwrap_or(json!({"scenario": "?", "rows": [], "violations": [{"property": "C13", "signature": "panic", "what": "scenario thread panicked"}]}))).collect();
    let viol: Vec<Value> = res.iter().flat_map(|r| r["violations"].as_array().unwrap().clone()).collect();
    json!({"scenarios": res, "violations": viol, "fresh_poller_within_grace": verif_poller::fresh_poller_within_grace()})
}

/// C13 "the PHC error bound is added exactly when the configured reference id matches the report's": the id as the
/// operator configures it (a string, through the CLI's own parser refid_to_u32) against the id chronyd reports
/// (the four ASCII bytes, most significant first, as `chronyc tracking` shows it). Case matters.
fn refid_cmd() -> Value {
    let names = ["PHC0", "phc0", "Phc0", "PHC1", "GPS", "gps", "A", "ab12", "PHC"];
    let wire = |s: &str| -> u32 { s.bytes().fold(0u32, |acc, b| (acc << 8) | b as u32) };
    let mut rows = vec![];
    let mut viol = vec![];
    for cfg in names {
        let Ok(id) = clock_bound_d::refid_to_u32(cfg) else {
            viol.push(json!({"property": "C13", "signature": "refid-rejected", "what": format!("refid_to_u32({cfg:?}) rejected a valid reference id")}));
            continue;
        };
        for rep in names {
            let path = scratch_path(&format!("refid_{cfg}_{rep}"));
            let phc_file = path.with_extension("phc");
            std::fs::write(&phc_file, "777\n").unwrap();
            let info = PhcInfo { refid: id, sysfs_error_bound_path: phc_file.clone() };
            let t = tracking(0, SystemTime::now(), cf(0, -30), cf(0, -30), cf(1, -7), 16.0, wire(rep));
            let r = poll_once(0, Script { reply: Some(t), now_at_query: 0, grace: false }, Some(info));
            let _ = std::fs::remove_file(&phc_file);
            cleanup(&path);
            let phc = match &r {
                Ok(Message::ClockErrorBoundData((_, p, _))) => Some(*p),
                _ => None,
            };
            let want = if cfg == rep { 777 } else { 0 };
            rows.push(json!({"configured": cfg, "reported": rep, "phc_in_message": phc}));
            // an iteration rejected for its clock reads is C12's business, not a reference-id mismatch
            let order_err = matches!(&r, Err(e) if e.starts_with("C12"));
            if phc != Some(want) && !order_err {
                viol.push(json!({"property": "C13", "signature": "refid-match", "what": format!("configured reference id {cfg:?}, chronyd reports {rep:?}: message carries PHC error bound {phc:?}, expected {want}")}));
            }
        }
    }
    // the PHC is the reference but its error bound cannot be read (file absent, empty, blank, not a number): the
    // report must not be used as a measurement (a PhcFail message, or the fail-stop panic of the pinned code)
    let id = clock_bound_d::refid_to_u32("PHC0").unwrap_or(PHC_REFID);
    for (what, content) in [("absent", None), ("empty", Some("")), ("blank", Some("  \n")), ("not-a-number", Some("N/A\n"))] {
        let path = scratch_path(&format!("phcfile_{what}"));
        let phc_file = path.with_extension("phc");
        let _ = std::fs::remove_file(&phc_file);
        if let Some(c) = content {
            std::fs::write(&phc_file, c).unwrap();
        }
        let info = PhcInfo { refid: id, sysfs_error_bound_path: phc_file.clone() };
        let t = tracking(0, SystemTime::now(), cf(0, -30), cf(0, -30), cf(1, -7), 16.0, PHC_REFID);
        let r = poll_once(0, Script { reply: Some(t), now_at_query: 0, grace: true }, Some(info));
        let _ = std::fs::remove_file(&phc_file);
        cleanup(&path);
        let outcome = match &r {
            Ok(m) => kind_of(m).0.to_string(),
            Err(e) => format!("fail-stop ({e})"),
        };
        rows.push(json!({"phc_file": what, "outcome": outcome}));
        if outcome == "Data" {
            viol.push(json!({"property": "C13", "signature": "phc-unreadable-used", "what": format!("PHC is the reference and its error bound file is {what}: the report was still delivered as a measurement")}));
        }
    }
    json!({"rows": rows, "violations": viol})
}

fn main() {
    let args: Vec<String> = std::env::args().collect();
    std::panic::set_hook(Box::new(|i| {
        if std::env::var("CB_DEBUG").is_ok() {
            eprintln!("[panic] {i}");
        }
    }));
    let out = match args.get(1).map(|s| s.as_str()) {
        Some("bound") => bound_cmd(&args),
        Some("class") => class_cmd(&args),
        Some("replay") => replay_cmd(&args),
        Some("grace") => grace_cmd(&args),
        Some("refid") => refid_cmd(),
        _ => {
            eprintln!("usage: daemon bound|class|replay|grace ...");
            std::process::exit(2)
        }
    };
    println!("{}", out);
}
