//! threads: the real thread_manager::run() under injected and natural worker failures (C15).
//!   threads case --fault <point:iteration:panic|return | none> --chrony <none|fast|slow|silent> [--phc-bad] [--shm-dir] [--deadline S]
//! Must run in a private mount namespace with a tmpfs over /run (bin/ns_threads.sh): the daemon's paths are hard-coded.
//! Prints one JSON object: when the first worker died, when run() returned, the event log.
use bytes::BytesMut;
use chrony_candm::common::ChronyAddr;
use chrony_candm::reply::{Reply, ReplyBody, Status, Tracking};
use chrony_candm::request::Request;
use clock_bound_d::{verif, PhcInfo};
use serde_json::{json, Value};
use std::os::unix::net::UnixDatagram;
use std::time::{Duration, Instant, SystemTime};

fn arg(args: &[String], name: &str) -> Option<String> {
    args.iter().position(|a| a == name).and_then(|i| args.get(i + 1).cloned())
}
fn flag(args: &[String], name: &str) -> bool {
    args.iter().any(|a| a == name)
}

const PHC_REFID: u32 = 0x5048_4330;

fn fake_chronyd(mode: String) {
    if mode == "none" {
        return;
    }
    let _ = std::fs::create_dir_all("/var/run/chrony");
    let _ = std::fs::remove_file("/var/run/chrony/chronyd.sock");
    let sock = UnixDatagram::bind("/var/run/chrony/chronyd.sock").expect("bind fake chronyd");
    std::thread::spawn(move || {
        let mut buf = [0u8; 2048];
        loop {
            let Ok((n, from)) = sock.recv_from(&mut buf) else { break };
            if mode == "silent" {
                continue;
            }
            if mode == "slow" {
                std::thread::sleep(Duration::from_millis(300));
            }
            let mut b = BytesMut::from(&buf[..n]);
            let Ok(req) = Request::deserialize(&mut b) else { continue };
            let t = Tracking {
                ref_id: PHC_REFID,
                ip_addr: ChronyAddr::default(),
                stratum: 1,
                leap_status: 0,
                ref_time: SystemTime::now(),
                current_correction: 0.0001.into(),
                last_offset: 0.0.into(),
                rms_offset: 0.0.into(),
                freq_ppm: 0.0.into(),
                resid_freq_ppm: 0.0.into(),
                skew_ppm: 0.0.into(),
                root_delay: 0.001.into(),
                root_dispersion: 0.0005.into(),
                last_update_interval: 16.0.into(),
            };
            let reply = Reply { status: Status::Success, cmd: 33, sequence: req.sequence, body: ReplyBody::Tracking(t) };
            let mut out = BytesMut::with_capacity(reply.length());
            reply.serialize(&mut out);
            if let Some(p) = from.as_pathname() {
                let _ = sock.send_to(&out, p);
            }
        }
    });
}

fn main() {
    let args: Vec<String> = std::env::args().collect();
    let fault = arg(&args, "--fault").unwrap_or("none".into());
    let chrony = arg(&args, "--chrony").unwrap_or("none".into());
    let deadline: f64 = arg(&args, "--deadline").map(|s| s.parse().unwrap()).unwrap_or(12.0);
    let natural_wait: f64 = arg(&args, "--natural-after").map(|s| s.parse().unwrap()).unwrap_or(0.0);
    std::panic::set_hook(Box::new(|_| {}));
    if !std::path::Path::new("/run/.cbverif_private").exists() {
        println!("{}", json!({"error": "not in a private /run (bin/ns_threads.sh)"}));
        std::process::exit(2);
    }
    fake_chronyd(chrony.clone());
    if flag(&args, "--shm-dir") {
        // natural fault: the segment path is a directory -> ShmWriter::new fails -> the writer thread panics at start-up
        std::fs::create_dir_all("/var/run/clockbound/shm").unwrap();
    }
    let phc_path = std::path::PathBuf::from("/run/phc_error_bound");
    let phc = if flag(&args, "--phc-bad") || flag(&args, "--phc") {
        std::fs::write(&phc_path, "1234\n").unwrap();
        Some(PhcInfo { refid: PHC_REFID, sysfs_error_bound_path: phc_path.clone() })
    } else {
        None
    };
    if fault != "none" {
        let p: Vec<&str> = fault.split(':').collect();
        verif::arm(Some(verif::FaultSpec { point: p[0].to_string(), iteration: p[1].parse().unwrap(), panic: p[2] == "panic" }));
    } else {
        verif::arm(None);
    }
    let t0 = Instant::now();
    let (tx, rx) = std::sync::mpsc::channel();
    std::thread::spawn(move || {
        clock_bound_d::thread_manager::run(50_000, phc);
        let _ = tx.send(t0.elapsed().as_secs_f64());
    });
    if flag(&args, "--phc-bad") {
        // natural fault: after two healthy polls the PHC error bound becomes unparsable -> the poller panics
        std::thread::sleep(Duration::from_secs_f64(natural_wait.max(2.2)));
        std::fs::write(&phc_path, "N/A\n").unwrap();
    }
    let returned = rx.recv_timeout(Duration::from_secs_f64(deadline)).ok();
    let events: Vec<Value> = verif::take_events().iter().filter_map(|l| serde_json::from_str(l).ok()).collect();
    // the first death: an injected Fail event, else the first CtxDrop
    let first_death = events.iter().position(|e| e["ev"] == "Fail" || e["ev"] == "CtxDrop");
    println!("{}", json!({"fault": fault, "chrony": chrony, "returned_after_s": returned, "deadline_s": deadline,
        "first_death_event": first_death.map(|i| events[i].clone()), "events": events,
        "phc_bad": flag(&args, "--phc-bad"), "shm_dir": flag(&args, "--shm-dir")}));
    // run() may be stuck: leave the process anyway
    std::process::exit(0);
}
