//! fakechrony: a scripted chronyd on /var/run/chrony/chronyd.sock for whole-process runs of the real daemon.
//!   fakechrony --script answer:4,silent:8,gone:6,answer:3,leap3:3 [--log file]
//! Phases (seconds): answer (synchronised tracking replies), leap3 (replies with leap status 3), silent (socket bound,
//! no reply), gone (socket removed). Writes one JSON line per phase start and per answered request to the log.
//! Every answer carries the next entry of a table of (offset, root delay, root dispersion) wire floats, so that
//! consecutive answers differ; `--refid <u32>` sets the reference id, `--delay-ms n` delays each reply. The log
//! holds the wire values (coefficient, power of two) and CLOCK_MONOTONIC readings at request receipt and at send.
use bytes::BytesMut;
use chrony_candm::common::{ChronyAddr, ChronyFloat};
use chrony_candm::reply::{Reply, ReplyBody, Status, Tracking};
use chrony_candm::request::Request;
use std::io::Write;
use std::os::unix::net::UnixDatagram;
use std::time::{Duration, Instant, SystemTime};

const SOCK: &str = "/var/run/chrony/chronyd.sock";

/// chrony wire float coef * 2^e (e = wire exponent - 25)
fn cf(coef: i32, e: i32) -> ChronyFloat {
    let exp = e + 25;
    assert!((-64..=63).contains(&exp) && (-(1 << 24)..(1 << 24)).contains(&coef));
    let w: u32 = (((exp as u32) & 0x7f) << 25) | ((coef as u32) & 0x01ff_ffff);
    unsafe { std::mem::transmute(w) }
}
fn mono_ns() -> i128 {
    let mut ts = libc::timespec { tv_sec: 0, tv_nsec: 0 };
    unsafe { libc::clock_gettime(libc::CLOCK_MONOTONIC, &mut ts) };
    ts.tv_sec as i128 * 1_000_000_000 + ts.tv_nsec as i128
}
/// (offset, delay, dispersion) as (coefficient, power of two); offsets of both signs
const TABLE: [[(i32, i32); 3]; 6] = [
    [(-214748, -30), (1073742, -30), (536871, -30)],   // -0.0002 s, 0.001 s, 0.0005 s
    [(7340032, -30), (107374, -30), (21475, -30)],     // +6.8 ms, 100 us, 20 us
    [(-3, -12), (5, -9), (1, -11)],
    [(12345, -24), (1, -10), (777, -20)],
    [(-16777215, -33), (3, -8), (0, -10)],
    [(0, -10), (8388608, -33), (12345, -25)],
];

fn main() {
    let args: Vec<String> = std::env::args().collect();
    let get = |n: &str| args.iter().position(|a| a == n).and_then(|i| args.get(i + 1).cloned());
    let script = get("--script").unwrap_or("answer:5".into());
    let mut log = get("--log").map(|p| std::fs::File::create(p).unwrap());
    let refid: u32 = get("--refid").map(|s| s.parse().unwrap()).unwrap_or(0x7f7f0101);
    let delay_ms: u64 = get("--delay-ms").map(|s| s.parse().unwrap()).unwrap_or(0);
    let vary = args.iter().any(|a| a == "--vary");
    // chronyd's reference time only moves when it updates the clock: --hold-ref N keeps it for N seconds
    let hold_ref: u64 = get("--hold-ref").map(|s| s.parse().unwrap()).unwrap_or(0);
    let mut held: Option<(Instant, SystemTime)> = None;
    // "slowsilent": a request is answered after 700 ms, then nothing is answered for 3.5 s (a chronyd that is
    // restarting right after a slow answer)
    let mut silent_until: Option<Instant> = None;
    let mut nans = 0usize;
    let t0 = Instant::now();
    let mut emit = |s: String| {
        if let Some(f) = log.as_mut() {
            let _ = writeln!(f, "{s}");
            let _ = f.flush();
        }
    };
    let _ = std::fs::create_dir_all("/var/run/chrony");
    for ph in script.split(',') {
        let (mode, secs) = ph.split_once(':').unwrap();
        let secs: f64 = secs.parse().unwrap();
        let start = Instant::now();
        emit(format!("{{\"ev\":\"phase\",\"mode\":\"{mode}\",\"t_ms\":{}}}", t0.elapsed().as_millis()));
        let _ = std::fs::remove_file(SOCK);
        if mode == "gone" {
            std::thread::sleep(Duration::from_secs_f64(secs));
            continue;
        }
        let sock = UnixDatagram::bind(SOCK).expect("bind");
        let _ = std::fs::set_permissions(SOCK, std::os::unix::fs::PermissionsExt::from_mode(0o777));
        sock.set_read_timeout(Some(Duration::from_millis(50))).unwrap();
        let mut buf = [0u8; 2048];
        while start.elapsed().as_secs_f64() < secs {
            let Ok((n, from)) = sock.recv_from(&mut buf) else { continue };
            let req_ns = mono_ns();
            if mode == "silent" {
                continue;
            }
            if mode == "slowsilent" {
                if silent_until.map(|t| Instant::now() < t).unwrap_or(false) {
                    continue;
                }
                std::thread::sleep(Duration::from_millis(700));
                silent_until = Some(Instant::now() + Duration::from_millis(3500));
            }
            let mut b = BytesMut::from(&buf[..n]);
            let Ok(req) = Request::deserialize(&mut b) else { continue };
            let row = if vary { TABLE[nans % TABLE.len()] } else { TABLE[0] };
            let t = Tracking {
                ref_id: refid,
                ip_addr: ChronyAddr::default(),
                stratum: 2,
                leap_status: if mode == "leap3" { 3 } else { 0 },
                ref_time: {
                    if hold_ref == 0 {
                        SystemTime::now()
                    } else {
                        if held.map(|(t, _)| t.elapsed().as_secs() >= hold_ref).unwrap_or(true) {
                            held = Some((Instant::now(), SystemTime::now()));
                        }
                        held.unwrap().1
                    }
                },
                current_correction: cf(row[0].0, row[0].1),
                last_offset: 0.0.into(),
                rms_offset: 0.0.into(),
                freq_ppm: 0.0.into(),
                resid_freq_ppm: 0.0.into(),
                skew_ppm: 0.0.into(),
                root_delay: cf(row[1].0, row[1].1),
                root_dispersion: cf(row[2].0, row[2].1),
                last_update_interval: 16.0.into(),
            };
            // "badreply": a well-formed reply that is not tracking data (status only): chronyd is up but of no use
            let reply = if mode == "badreply" {
                Reply { status: Status::Failed, cmd: 33, sequence: req.sequence, body: ReplyBody::Null }
            } else {
                Reply { status: Status::Success, cmd: 33, sequence: req.sequence, body: ReplyBody::Tracking(t) }
            };
            let mut out = BytesMut::with_capacity(reply.length());
            reply.serialize(&mut out);
            if delay_ms > 0 {
                std::thread::sleep(Duration::from_millis(delay_ms));
            }
            if let Some(p) = from.as_pathname() {
                if sock.send_to(&out, p).is_ok() && mode != "badreply" {
                    nans += 1;
                    emit(format!(
                        "{{\"ev\":\"answered\",\"mode\":\"{mode}\",\"t_ms\":{},\"req_ns\":{},\"ans_ns\":{},\"corr\":[{},{}],\"delay\":[{},{}],\"disp\":[{},{}],\"ref_id\":{}}}",
                        t0.elapsed().as_millis(), req_ns, mono_ns(), row[0].0, row[0].1, row[1].0, row[1].1, row[2].0, row[2].1, refid
                    ));
                }
            }
        }
    }
    let _ = std::fs::remove_file(SOCK);
    emit(format!("{{\"ev\":\"end\",\"t_ms\":{}}}", t0.elapsed().as_millis()));
}
