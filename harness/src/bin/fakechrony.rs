//! fakechrony: a scripted chronyd on /var/run/chrony/chronyd.sock for whole-process runs of the real daemon.
//!   fakechrony --script answer:4,silent:8,gone:6,answer:3,leap3:3 [--log file]
//! Phases (seconds): answer (synchronised tracking replies), leap3 (replies with leap status 3), silent (socket bound,
//! no reply), gone (socket removed). Writes one JSON line per phase start and per answered request to the log.
use bytes::BytesMut;
use chrony_candm::common::ChronyAddr;
use chrony_candm::reply::{Reply, ReplyBody, Status, Tracking};
use chrony_candm::request::Request;
use std::io::Write;
use std::os::unix::net::UnixDatagram;
use std::time::{Duration, Instant, SystemTime};

const SOCK: &str = "/var/run/chrony/chronyd.sock";

fn main() {
    let args: Vec<String> = std::env::args().collect();
    let get = |n: &str| args.iter().position(|a| a == n).and_then(|i| args.get(i + 1).cloned());
    let script = get("--script").unwrap_or("answer:5".into());
    let mut log = get("--log").map(|p| std::fs::File::create(p).unwrap());
    let t0 = Instant::now();
    let mut emit = |s: String| {
        if let Some(f) = log.as_mut() {
            let _ = writeln!(f, "{s}");
            let _ = f.flush();
        }
    };
    let _ = std::fs::create_dir_all("/var/run/chrony");
    for ph in script.split(',') {
        let (mode, secs) = ph.split_once(':').unwrap();
        let secs: f64 = secs.parse().unwrap();
        let start = Instant::now();
        emit(format!("{{\"ev\":\"phase\",\"mode\":\"{mode}\",\"t_ms\":{}}}", t0.elapsed().as_millis()));
        let _ = std::fs::remove_file(SOCK);
        if mode == "gone" {
            std::thread::sleep(Duration::from_secs_f64(secs));
            continue;
        }
        let sock = UnixDatagram::bind(SOCK).expect("bind");
        let _ = std::fs::set_permissions(SOCK, std::os::unix::fs::PermissionsExt::from_mode(0o777));
        sock.set_read_timeout(Some(Duration::from_millis(50))).unwrap();
        let mut buf = [0u8; 2048];
        while start.elapsed().as_secs_f64() < secs {
            let Ok((n, from)) = sock.recv_from(&mut buf) else { continue };
            if mode == "silent" {
                continue;
            }
            let mut b = BytesMut::from(&buf[..n]);
            let Ok(req) = Request::deserialize(&mut b) else { continue };
            let t = Tracking {
                ref_id: 0x7f7f0101,
                ip_addr: ChronyAddr::default(),
                stratum: 2,
                leap_status: if mode == "leap3" { 3 } else { 0 },
                ref_time: SystemTime::now(),
                current_correction: (-0.0002).into(),
                last_offset: 0.0.into(),
                rms_offset: 0.0.into(),
                freq_ppm: 0.0.into(),
                resid_freq_ppm: 0.0.into(),
                skew_ppm: 0.0.into(),
                root_delay: 0.001.into(),
                root_dispersion: 0.0005.into(),
                last_update_interval: 16.0.into(),
            };
            // "badreply": a well-formed reply that is not tracking data (status only): chronyd is up but of no use
            let reply = if mode == "badreply" {
                Reply { status: Status::Failed, cmd: 33, sequence: req.sequence, body: ReplyBody::Null }
            } else {
                Reply { status: Status::Success, cmd: 33, sequence: req.sequence, body: ReplyBody::Tracking(t) }
            };
            let mut out = BytesMut::with_capacity(reply.length());
            reply.serialize(&mut out);
            if let Some(p) = from.as_pathname() {
                if sock.send_to(&out, p).is_ok() && mode != "badreply" {
                    emit(format!("{{\"ev\":\"answered\",\"mode\":\"{mode}\",\"t_ms\":{}}}", t0.elapsed().as_millis()));
                }
            }
        }
    }
    let _ = std::fs::remove_file(SOCK);
    emit(format!("{{\"ev\":\"end\",\"t_ms\":{}}}", t0.elapsed().as_millis()));
}
