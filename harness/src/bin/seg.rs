//! seg: conformance driver for the segment protocol.
//!   seg replay <behaviours.ndjson> [--ra]         step TLC behaviours through the real code (binding R)
//!   seg explore --seed S --runs N --steps M ...   random controlled schedules + event log (binding T)
//!   seg extract                                    log (op, location, ordering) of write()/snapshot() (binding X)
//!   seg gensweep [--from A --to B]                 real write() from every start generation (C11)
//!   seg stall                                      reader vs writer stalled at every point (C18)
//! Output: one JSON object on stdout. Exit 0 unless the tool itself failed (2).

use cbverif::seg::*;
use cbverif::segctl::*;
use rand::rngs::StdRng;
use rand::{Rng, SeedableRng};
use serde_json::{json, Value};
use std::io::BufRead;
use std::path::Path;

fn arg(args: &[String], name: &str) -> Option<String> {
    args.iter().position(|a| a == name).and_then(|i| args.get(i + 1).cloned())
}
fn flag(args: &[String], name: &str) -> bool {
    args.iter().any(|a| a == name)
}

fn main() {
    let args: Vec<String> = std::env::args().collect();
    std::panic::set_hook(Box::new(|info| {
        // panics of the code under test are data (caught per command); keep stderr readable
        if let Some(s) = info.payload().downcast_ref::<String>() {
            if s.contains("clockbound") {
                return;
            }
        }
        eprintln!("[panic] {info}");
    }));
    let out = match args.get(1).map(|s| s.as_str()) {
        Some("replay") => replay_cmd(&args),
        Some("explore") => explore_cmd(&args),
        Some("extract") => extract_cmd(&args),
        Some("gensweep") => gensweep_cmd(&args),
        Some("stall") => stall_cmd(&args),
        Some("busy") => busy_cmd(&args),
        Some("halfwipe") => halfwipe_cmd(&args),
        Some("wrap") => wrap_cmd(&args),
        Some("extwipe") => extwipe_cmd(&args),
        _ => {
            eprintln!("usage: seg replay|explore|extract|gensweep|stall ...");
            std::process::exit(2)
        }
    };
    println!("{}", out);
}

// ------------------------------------------------------------------------------------------ replay
struct ReplayOutcome {
    steps: usize,
    comparisons: usize,
    drift: Option<String>,
    violations: Vec<(String, String, String)>,
    transcript: Vec<Value>,
}

fn open_str(v: &Value) -> String {
    v.as_str().unwrap_or("").to_string()
}

fn replay_one(beh: &Value, ra: bool, tag: &str, stop_on: &[String]) -> Result<ReplayOutcome, String> {
    let steps = beh["steps"].as_array().ok_or("no steps")?;
    let init = &steps[0]["exp"];
    let w = init["w"].as_array().unwrap().len();
    let bounds = chunk_bounds(w);
    let readers: Vec<String> = init["r"].as_object().unwrap().keys().cloned().collect();
    let path = scratch_path(tag);
    make_start_file(&path, init, &bounds);
    let mut ctl = Ctl::new(&path, w, &readers, init["wk"].as_u64().unwrap(), init["done"].as_u64().unwrap());
    ctl.oracle.sc = !ra;
    ctl.oracle.stop_on = stop_on.to_vec();
    let mut out = ReplayOutcome { steps: 0, comparisons: 0, drift: None, violations: vec![], transcript: vec![] };
    let mut free = false;
    for (i, st) in steps.iter().enumerate().skip(1) {
        let a = st["a"].as_str().unwrap();
        let p = st["p"].as_str().unwrap();
        let v = st["v"].as_u64().unwrap_or(0);
        let exp = &st["exp"];
        let r = step(&mut ctl, a, p, v, exp, ra, free, &bounds);
        out.steps += 1;
        match r {
            Err(e) if ctl.poisoned => {
                let _ = e;
                break;
            }
            Err(e) => {
                // tool-level failure (real hang, dead actor)
                ctl.shutdown();
                cleanup(&path);
                return Err(format!("step {i} {a}/{p}: {e}"));
            }
            Ok(StepResult::Match(n, tr)) => {
                out.comparisons += n;
                out.transcript.push(tr);
            }
            Ok(StepResult::Skipped) => (),
            Ok(StepResult::Drift(msg, tr)) => {
                out.transcript.push(tr);
                if out.drift.is_none() {
                    out.drift = Some(format!("step {i} {a}/{p}: {msg}"));
                }
                free = true;
            }
        }
        if ctl.oracle.should_stop() {
            break;
        }
    }
    // let every started command finish so that the oracle sees its result
    drain(&mut ctl, false);
    out.violations = ctl.oracle.violations.clone();
    ctl.shutdown();
    cleanup(&path);
    Ok(out)
}

fn drain(ctl: &mut Ctl, full: bool) {
    if ctl.poisoned {
        // abandon every call without touching the mapping
        let names: Vec<String> = ctl.procs.keys().cloned().collect();
        for n in names {
            if ctl.pending_of(&n).is_some() {
                let _ = ctl.release(&n, Directive::Crash);
            }
        }
        return;
    }
    let names: Vec<String> = ctl.procs.keys().cloned().collect();
    // writer first (bounded number of steps, one at a time so that the oracle sees each)
    let writers: Vec<String> = names.iter().filter(|n| ctl.procs[*n].is_writer).cloned().collect();
    let readers: Vec<String> = names.iter().filter(|n| !ctl.procs[*n].is_writer).cloned().collect();
    for n in writers.iter() {
        let mut guard = 0;
        while ctl.pending_of(n).is_some() && guard < 64 {
            guard += 1;
            if ctl.release(n, Directive::Proceed).is_err() {
                break;
            }
        }
    }
    // readers: single steps (logged); a reader spinning against a stalled writer is compressed into
    // RSpin events; anything still running after that is cut off by the access budget
    for n in readers.iter() {
        let mut guard = 0;
        while let Some(pd) = ctl.pending_of(n) {
            guard += 1;
            if !full && guard > 60 {
                // replay: the spin against a dead writer is exercised by `stall` and `explore`; abandon the call
                let _ = ctl.release(n, Directive::Crash);
                break;
            }
            if ctl.oracle.should_stop() {
                let _ = ctl.release(n, Directive::Crash);
                break;
            }
            let r = if full && guard > 40 && pd == "dr:0" && guard < 200 {
                ctl.release_spin(n, 1_000_000)
            } else if guard < 2000 {
                ctl.release(n, Directive::Proceed)
            } else if guard < 2003 {
                ctl.release(n, Directive::FreeRun(20_000_000))
            } else {
                ctl.oracle.violations.push(("C18".into(), "unbounded-work".into(), format!("reader {n}: snapshot() still running after more than 60M shared accesses with the writer stopped")));
                let _ = ctl.release(n, Directive::Crash);
                break;
            };
            if r.is_err() {
                break;
            }
        }
    }
    // once everything is quiescent, every attached reader calls once more: with the writer idle it must catch up
    // with the latest completed publication (C03), whatever happened before
    if !ctl.oracle.should_stop() {
        for n in readers.iter() {
            if ctl.procs[n].attached && ctl.procs[n].phase == Phase::Idle {
                if ctl.start(n, Cmd::RCall).is_err() {
                    continue;
                }
                let mut guard = 0;
                while ctl.pending_of(n).is_some() && guard < 64 {
                    guard += 1;
                    if ctl.release(n, Directive::Proceed).is_err() {
                        break;
                    }
                }
                if ctl.pending_of(n).is_some() {
                    let _ = ctl.release(n, Directive::Crash);
                }
            }
        }
    }
}

enum StepResult {
    Match(usize, Value),
    Drift(String, Value),
    Skipped,
}

fn expected_pending(a: &str, v: u64) -> Option<String> {
    Some(
        match a {
            "WProbe" => "point:new.probe".to_string(),
            "WCreate" => "point:wipe.create".into(),
            "WMagic0" => "point:wipe.magic0".into(),
            "WMagic1" => "point:wipe.magic1".into(),
            "WSize" => "point:wipe.size".into(),
            "WVersion0" => "point:wipe.version".into(),
            "WGeneration0" => "point:wipe.generation".into(),
            "WBody" => "point:wipe.body".into(),
            "WSync" => "point:wipe.sync".into(),
            "WMmap" => "point:new.mmap".into(),
            "WVer1" => "store:ver".into(),
            "WLoadGen" => "load:gen".into(),
            "WOdd" | "WEven" => "store:gen".into(),
            "WFence" | "RFence" => "fence".into(),
            "WWord" => format!("dw:{}", v - 1),
            "RVer" => "load:ver".into(),
            "RG1" | "RG2" => "load:gen".into(),
            "RWord" => return None, // chunk index comes from the reader's own progress
            _ => return None,
        },
    )
}

fn compare_file(ctl: &Ctl, exp: &Value, bounds: &[usize]) -> Option<String> {
    let fs = file_state(&ctl.path);
    let ex = exp["ex"].as_bool().unwrap();
    if fs.exists != ex {
        return Some(format!("file exists {} vs spec {}", fs.exists, ex));
    }
    if !ex {
        return None;
    }
    let len = exp["len"].as_u64().unwrap();
    if fs.len != len {
        return Some(format!("file length {} vs spec {}", fs.len, len));
    }
    if len >= 8 && fs.magic_ok != exp["mok"].as_bool().unwrap() {
        return Some(format!("magic ok {} vs spec {}", fs.magic_ok, exp["mok"]));
    }
    if len >= 12 && fs.size as u64 != exp["size"].as_u64().unwrap() {
        return Some(format!("declared size {} vs spec {}", fs.size, exp["size"]));
    }
    if len >= 14 && fs.ver as u64 != exp["ver"].as_u64().unwrap() {
        return Some(format!("version {} vs spec {}", fs.ver, exp["ver"]));
    }
    if len >= 16 && fs.gen as u64 != exp["gen"].as_u64().unwrap() {
        return Some(format!("generation {} vs spec {}", fs.gen, exp["gen"]));
    }
    if len >= 72 {
        let mw: Vec<u64> = exp["w"].as_array().unwrap().iter().map(|x| x.as_u64().unwrap()).collect();
        let want = expand(&mw, bounds);
        if fs.words != want {
            return Some(format!("record words {:?} vs spec {:?}", fs.words, want));
        }
    }
    None
}

fn step(ctl: &mut Ctl, a: &str, p: &str, v: u64, exp: &Value, ra: bool, free: bool, bounds: &[usize]) -> Result<StepResult, String> {
    let name = p.to_string();
    let tr = |info: &StepInfo| json!({"a": a, "p": p, "real_action": info.action, "val": info.val, "done": info.done.as_ref().map(|d| d.0.clone()), "pending": info.pending});
    // ---------------------------------------------------------------- free mode: keep the processes moving
    if free {
        let pend = ctl.pending_of(&name);
        let idle = ctl.procs[&name].phase == Phase::Idle;
        let info = match a {
            "WCrash" => {
                if pend.is_some() {
                    ctl.release(&name, Directive::Crash)?
                } else if idle {
                    ctl.start(&name, Cmd::WDrop)?
                } else {
                    return Ok(StepResult::Skipped);
                }
            }
            "WRestart" if idle && !ctl.procs[&name].alive => ctl.start(&name, Cmd::WNew)?,
            "WLoadGen" if idle && ctl.procs[&name].alive => {
                let k = exp["wk"].as_u64().unwrap();
                ctl.start(&name, Cmd::WWrite(k))?;
                ctl.release(&name, Directive::Proceed)?
            }
            "ROpen" if idle && !ctl.procs[&name].attached => ctl.start(&name, Cmd::ROpen)?,
            "RCall" if idle && ctl.procs[&name].attached => ctl.start(&name, Cmd::RCall)?,
            _ => {
                if pend.is_some() {
                    ctl.release(&name, Directive::Proceed)?
                } else {
                    return Ok(StepResult::Skipped);
                }
            }
        };
        return Ok(StepResult::Match(0, tr(&info)));
    }
    // ---------------------------------------------------------------- lock-step mode
    let mut n = 0usize;
    let info: StepInfo = match a {
        "WRestart" => {
            let i = ctl.start(&name, Cmd::WNew)?;
            if i.pending.as_deref() != Some("point:new.probe") {
                return Ok(StepResult::Drift(format!("ShmWriter::new did not reach the probe point: {:?}", i.pending), tr(&i)));
            }
            i
        }
        "WCrash" => {
            let i = if ctl.pending_of(&name).is_some() { ctl.release(&name, Directive::Crash)? } else { ctl.start(&name, Cmd::WDrop)? };
            i
        }
        "ROpen" => {
            let i = ctl.start(&name, Cmd::ROpen)?;
            if i.done.is_none() {
                return Ok(StepResult::Drift(format!("ShmReader::new accesses the mapped segment (parked at {:?}); the specification's open only reads the header from the file", i.pending), tr(&i)));
            }
            let got = i.done.as_ref().map(|d| d.0.clone()).unwrap_or_default();
            let want = open_str(&exp["r"][p]["open"]);
            n += 1;
            if got != want {
                // the open outcome is an observable of C16
                ctl.oracle.violations.push(("C16".into(), "open-outcome".into(), format!("ShmReader::new returned {got}, documented outcome for this file is {want}")));
                return Ok(StepResult::Drift(format!("open outcome {got} vs spec {want}"), tr(&i)));
            }
            i
        }
        "RCall" => {
            let i = ctl.start(&name, Cmd::RCall)?;
            if i.pending.as_deref() != Some("load:ver") {
                return Ok(StepResult::Drift(format!("snapshot() did not start with the version load: {:?} {:?}", i.pending, i.done), tr(&i)));
            }
            i
        }
        "RDone" => {
            // the call returned at the previous reader step; compare its result with the spec's
            let ld = ctl.procs[&name].last_done.clone();
            let Some((what, words, _acc, _gl)) = ld else {
                return Ok(StepResult::Drift("spec call returned but the real call has not".into(), json!({"a": a, "p": p})));
            };
            let ek = exp["r"][p]["k"].as_str().unwrap();
            let mw: Vec<u64> = exp["r"][p]["rec"].as_array().unwrap().iter().map(|x| x.as_u64().unwrap()).collect();
            n += 1;
            let info = StepInfo { action: "RDone".into(), val: None, done: Some((what.clone(), words)), pending: None, ord: "-".into() };
            if ek == "error" {
                if what == "ok" {
                    return Ok(StepResult::Drift(format!("snapshot returned a record, spec says error"), tr(&info)));
                }
            } else {
                if what != "ok" {
                    return Ok(StepResult::Drift(format!("snapshot returned {what}, spec says record {:?}", mw), tr(&info)));
                }
                let want = expand(&mw, bounds);
                if words != Some(want) {
                    return Ok(StepResult::Drift(format!("snapshot returned {:?}, spec says {:?}", words, want), tr(&info)));
                }
            }
            info
        }
        _ => {
            // a step that executes the parked access
            if a == "WLoadGen" {
                let k = exp["wk"].as_u64().unwrap();
                let i = ctl.start(&name, Cmd::WWrite(k))?;
                if i.pending.as_deref() != Some("load:gen") {
                    return Ok(StepResult::Drift(format!("write() did not start with the generation load: {:?}", i.pending), tr(&i)));
                }
            }
            let pend = ctl.pending_of(&name);
            let Some(pend) = pend else {
                return Ok(StepResult::Drift(format!("spec step {a} but the real process is not at a shared access (last result {:?})", ctl.procs[&name].last_done.as_ref().map(|d| d.0.clone())), json!({"a": a, "p": p})));
            };
            if let Some(want) = expected_pending(a, v) {
                if pend != want {
                    return Ok(StepResult::Drift(format!("spec step {a} executes {want}, real process is at {pend}"), json!({"a": a, "p": p, "pending": pend})));
                }
            } else if a == "RWord" && !pend.starts_with("dr:") {
                return Ok(StepResult::Drift(format!("spec step RWord, real process is at {pend}"), json!({"a": a, "p": p, "pending": pend})));
            }
            let d = if ra {
                match a {
                    "RVer" | "RG1" | "RG2" => Directive::Serve(v),
                    "RWord" => Directive::ServeRec(rec_words(v)),
                    _ => Directive::Proceed,
                }
            } else {
                Directive::Proceed
            };
            let i = ctl.release(&name, d)?;
            n += 1;
            // loaded / stored value
            if matches!(a, "RVer" | "RG1" | "RG2" | "WLoadGen" | "WOdd" | "WEven" | "WVer1") {
                if i.val != Some(v) {
                    return Ok(StepResult::Drift(format!("{a}: real value {:?} vs spec {v}", i.val), tr(&i)));
                }
            }
            // did the call return exactly when the spec says so?
            if !ctl.procs[&name].is_writer {
                let spec_done = exp["r"][p]["pc"] == "done";
                if spec_done && i.done.is_none() && exp["r"][p]["k"] == "error" {
                    // the model's retry budget (a small constant in the model-checking configurations) is exhausted,
                    // the code's is not: the real call is abandoned here; that the real budget is finite is C18's
                    // stalled-writer matrix
                    let i2 = ctl.release(&name, Directive::Crash)?;
                    return Ok(StepResult::Match(n, tr(&i2)));
                }
                if spec_done != i.done.is_some() {
                    return Ok(StepResult::Drift(format!("{a}: spec call {} but real call {}", if spec_done { "returned" } else { "continues" }, if i.done.is_some() { format!("returned {:?}", i.done) } else { format!("continues at {:?}", i.pending) }), tr(&i)));
                }
            } else {
                let spec_idle = exp["wpc"] == "idle";
                if spec_idle != i.done.is_some() {
                    return Ok(StepResult::Drift(format!("{a}: spec writer {} but real writer {}", if spec_idle { "returned" } else { "continues" }, if i.done.is_some() { "returned".to_string() } else { format!("continues at {:?}", i.pending) }), tr(&i)));
                }
            }
            i
        }
    };
    // file bytes after every step
    n += 1;
    if let Some(m) = compare_file(ctl, exp, bounds) {
        return Ok(StepResult::Drift(m, tr(&info)));
    }
    Ok(StepResult::Match(n, tr(&info)))
}

fn replay_cmd(args: &[String]) -> Value {
    let file = args.get(2).expect("behaviours file");
    let ra = flag(args, "--ra");
    let stop_on: Vec<String> = arg(args, "--stop-on").map(|s| s.split(',').map(|x| x.to_string()).collect()).unwrap_or_default();
    let f = std::io::BufReader::new(std::fs::File::open(file).expect("open behaviours"));
    let (mut nb, mut steps, mut comps) = (0usize, 0usize, 0usize);
    let mut violations = vec![];
    let mut drifts = vec![];
    let mut errors = vec![];
    let t0 = std::time::Instant::now();
    for line in f.lines() {
        let line = line.unwrap();
        if line.trim().is_empty() {
            continue;
        }
        let beh: Value = serde_json::from_str(&line).expect("behaviour json");
        let n = beh["n"].as_u64().unwrap_or(nb as u64);
        match replay_one(&beh, ra, &format!("rp{n}"), &stop_on) {
            Ok(o) => {
                steps += o.steps;
                comps += o.comparisons;
                if !o.violations.is_empty() {
                    if violations.len() < 20 {
                        violations.push(json!({"behaviour": n, "violations": viol_json(&o.violations), "drift": o.drift, "steps": beh["steps"], "transcript": o.transcript}));
                    }
                } else if let Some(d) = o.drift {
                    if drifts.len() < 20 {
                        drifts.push(json!({"behaviour": n, "drift": d, "steps": beh["steps"], "transcript": o.transcript}));
                    }
                }
            }
            Err(e) => errors.push(json!({"behaviour": n, "error": e})),
        }
        nb += 1;
    }
    json!({"behaviours": nb, "steps": steps, "comparisons": comps, "violations": violations, "drifts": drifts, "errors": errors,
           "wall_s": t0.elapsed().as_secs_f64()})
}

// ------------------------------------------------------------------------------------------ explore (binding T)
fn explore_cmd(args: &[String]) -> Value {
    let seed: u64 = arg(args, "--seed").map(|s| s.parse().unwrap()).unwrap_or(1);
    let runs: usize = arg(args, "--runs").map(|s| s.parse().unwrap()).unwrap_or(20);
    let nsteps: usize = arg(args, "--steps").map(|s| s.parse().unwrap()).unwrap_or(400);
    let w: usize = arg(args, "--w").map(|s| s.parse().unwrap()).unwrap_or(7);
    let nreaders: usize = arg(args, "--readers").map(|s| s.parse().unwrap()).unwrap_or(3);
    let trace_out = arg(args, "--trace");
    let crash_pct: u32 = arg(args, "--crash-pct").map(|s| s.parse().unwrap()).unwrap_or(3);
    let stop_on: Vec<String> = arg(args, "--stop-on").map(|s| s.split(',').map(|x| x.to_string()).collect()).unwrap_or_default();
    let mut rng = StdRng::seed_from_u64(seed);
    let mut all_events: Vec<Value> = vec![];
    let mut violations = vec![];
    let mut errors = vec![];
    let mut total_steps = 0usize;
    let mut calls = 0u64;
    let mut pubs = 0u64;
    let mut crashes = 0u64;
    let mut spins = 0u64;
    let t0 = std::time::Instant::now();
    for run in 0..runs {
        let readers: Vec<String> = (1..=nreaders).map(|i| format!("r{i}")).collect();
        let path = scratch_path(&format!("ex{run}"));
        // start file class
        let class = rng.gen_range(0..9);
        let (init, wk, done) = start_class(class, w);
        let bounds = chunk_bounds(w);
        make_start_file(&path, &init, &bounds);
        let mut ctl = Ctl::new(&path, w, &readers, wk, done);
        ctl.oracle.stop_on = stop_on.clone();
        ctl.log_events = trace_out.is_some();
        ctl.events.push(json!({"n": 0, "p": "-", "a": "Reset", "v": 0, "init": init, "w": w, "readers": readers}));
        let mut k = wk;
        let mut err = None;
        let names: Vec<String> = ctl.procs.keys().cloned().collect();
        // bias: sometimes let one process run a burst
        let mut burst: Option<(String, usize)> = None;
        for _ in 0..nsteps {
            let name = match &mut burst {
                Some((n, left)) if *left > 0 => {
                    *left -= 1;
                    n.clone()
                }
                _ => {
                    burst = None;
                    let n = names[rng.gen_range(0..names.len())].clone();
                    if rng.gen_range(0..10) == 0 {
                        burst = Some((n.clone(), rng.gen_range(3..40)));
                    }
                    n
                }
            };
            let is_writer = ctl.procs[&name].is_writer;
            let pend = ctl.pending_of(&name);
            let r: Result<StepInfo, String> = if let Some(pd) = pend {
                if !is_writer && pd == "dr:0" && file_state(&path).gen % 2 == 1 && rng.gen_range(0..100) < 30 {
                    let iters = if rng.gen_range(0..4) == 0 { 1_000_000 } else { rng.gen_range(1..5000) };
                    spins += 1;
                    ctl.release_spin(&name, iters)
                } else if is_writer && rng.gen_range(0..100) < crash_pct {
                    crashes += 1;
                    ctl.release(&name, Directive::Crash)
                } else {
                    ctl.release(&name, Directive::Proceed)
                }
            } else if is_writer {
                if !ctl.procs[&name].alive {
                    ctl.start(&name, Cmd::WNew)
                } else if rng.gen_range(0..100) < crash_pct {
                    crashes += 1;
                    ctl.start(&name, Cmd::WDrop)
                } else {
                    k += 1;
                    pubs += 1;
                    match ctl.start(&name, Cmd::WWrite(k)) {
                        Ok(_) => ctl.release(&name, Directive::Proceed),
                        Err(e) => Err(e),
                    }
                }
            } else if !ctl.procs[&name].attached {
                ctl.start(&name, Cmd::ROpen)
            } else {
                calls += 1;
                ctl.start(&name, Cmd::RCall)
            };
            total_steps += 1;
            if let Err(e) = r {
                if !ctl.poisoned {
                    err = Some(e);
                }
                break;
            }
            if ctl.oracle.should_stop() {
                break;
            }
        }
        drain(&mut ctl, true);
        if let Some(e) = err {
            errors.push(json!({"run": run, "error": e}));
        }
        if ctl.oracle.should_stop() && violations.len() < 10 {
            violations.push(json!({"run": run, "seed": seed, "class": class, "violations": viol_json(&ctl.oracle.violations),
                "events": ctl.events.iter().rev().take(60).rev().cloned().collect::<Vec<_>>()}));
        }
        all_events.append(&mut ctl.events);
        ctl.shutdown();
        cleanup(&path);
    }
    if let Some(p) = trace_out {
        let mut s = String::new();
        for e in &all_events {
            s.push_str(&e.to_string());
            s.push('\n');
        }
        std::fs::write(p, s).unwrap();
    }
    json!({"runs": runs, "steps": total_steps, "calls": calls, "publications": pubs, "crashes": crashes, "spins": spins, "events": all_events.len(),
           "violations": violations, "errors": errors, "wall_s": t0.elapsed().as_secs_f64()})
}

/// abstract start files (same classes as MC_seg.tla), as projection objects
fn start_class(class: u32, w: usize) -> (Value, u64, u64) {
    let z: Vec<u64> = vec![0; w];
    let one: Vec<u64> = vec![1; w];
    let mut mixed: Vec<u64> = vec![1; w];
    mixed[0] = 2;
    let f = |ex: bool, len: u64, mok: bool, size: u64, ver: u64, gen: u64, ws: &Vec<u64>| json!({"ex": ex, "len": len, "mok": mok, "size": size, "ver": ver, "gen": gen, "w": ws});
    match class {
        0 => (f(false, 0, false, 0, 0, 0, &z), 0, 0),
        1 => (f(true, 0, false, 0, 0, 0, &z), 0, 0),
        2 => (f(true, 72, true, 72, 0, 0, &z), 0, 0),
        3 => (f(true, 72, true, 72, 1, 1, &z), 0, 0),
        4 => (f(true, 72, true, 72, 1, 4, &one), 1, 1),
        5 => (f(true, 72, true, 72, 1, 65530, &one), 1, 1),
        6 => (f(true, 72, true, 72, 1, 65535, &mixed), 2, 1),
        8 => (f(true, 72, true, 72, 1, 2, &one), 1, 1),
        _ => (f(true, 72, false, 72, 1, 4, &one), 1, 1),
    }
}

// ------------------------------------------------------------------------------------------ extract (binding X)
fn extract_cmd(_args: &[String]) -> Value {
    // run write() once, and snapshot() once on each control-flow path, free-running with a logging hook
    use clock_bound_shm::verif::{self, Action, Event, Op};
    use clock_bound_shm::{ShmReader, ShmWrite, ShmWriter};
    use std::cell::RefCell;
    use std::rc::Rc;
    let path = scratch_path("extract");
    let log: Rc<RefCell<Vec<String>>> = Rc::new(RefCell::new(vec![]));
    let maps_path = path.to_string_lossy().to_string();
    let classify = move |e: &Event| -> Option<String> {
        let loc = |addr: usize| -> Option<&'static str> {
            let maps = std::fs::read_to_string("/proc/self/maps").unwrap_or_default();
            for l in maps.lines().filter(|l| l.ends_with(&maps_path)) {
                let r: Vec<usize> = l.split_whitespace().next().unwrap().split('-').map(|x| usize::from_str_radix(x, 16).unwrap()).collect();
                if addr >= r[0] && addr < r[1] {
                    return Some(match addr - r[0] { 12 => "ver", 14 => "gen", _ => "other" });
                }
            }
            None
        };
        match e.op {
            Op::Load => loc(e.addr).map(|l| format!("load {l} {:?}", e.ord.unwrap())),
            Op::Store => loc(e.addr).map(|l| format!("store {l} {:?}", e.ord.unwrap())),
            Op::Fence => Some(format!("fence {:?}", e.ord.unwrap())),
            Op::DataWrite(c) => Some(format!("dw {c}")),
            Op::DataRead(c) => Some(format!("dr {c}")),
            Op::Point(n) => Some(format!("point {n}")),
        }
    };
    {
        let log = log.clone();
        verif::install(Box::new(move |e: Event| {
            if let Some(d) = classify(&e) {
                log.borrow_mut().push(d);
            }
            Action::Proceed
        }));
    }
    verif::set_chunks(&chunk_bounds(2));
    let take = |log: &Rc<RefCell<Vec<String>>>| -> Vec<String> { std::mem::take(&mut *log.borrow_mut()) };
    let mut w = ShmWriter::new(&path).unwrap();
    let new_cold = take(&log);
    w.write(&rec(1));
    let write_first = take(&log);
    w.write(&rec(2));
    let write = take(&log);
    let c = std::ffi::CString::new(path.to_string_lossy().as_bytes()).unwrap();
    let mut r = ShmReader::new(&c).unwrap();
    let _ = take(&log);
    let _ = r.snapshot();
    let snap_accept = take(&log);
    let _ = r.snapshot();
    let snap_unchanged = take(&log);
    drop(w);
    let w2 = ShmWriter::new(&path).unwrap();
    let new_warm = take(&log);
    drop(w2);
    // odd generation: patch the file
    let mut img = std::fs::read(&path).unwrap();
    img[14..16].copy_from_slice(&7u16.to_ne_bytes());
    std::fs::write(&path, &img).unwrap();
    let _ = r.snapshot();
    let snap_odd = take(&log);
    verif::uninstall();
    cleanup(&path);
    json!({"new_cold": new_cold, "new_warm": new_warm, "write_first": write_first, "write": write,
           "snapshot_accept": snap_accept, "snapshot_unchanged": snap_unchanged, "snapshot_odd": snap_odd})
}

// ------------------------------------------------------------------------------------------ gensweep (C11)
fn gensweep_cmd(args: &[String]) -> Value {
    use clock_bound_shm::verif::{self, Action, Event, Op};
    use clock_bound_shm::{ShmWrite, ShmWriter};
    use std::cell::RefCell;
    use std::rc::Rc;
    let from: u32 = arg(args, "--from").map(|s| s.parse().unwrap()).unwrap_or(1);
    let to: u32 = arg(args, "--to").map(|s| s.parse().unwrap()).unwrap_or(65535);
    let path = scratch_path("gensweep");
    // observe the generation bytes of the file at every data-write hook
    let inflight: Rc<RefCell<Vec<u16>>> = Rc::new(RefCell::new(vec![]));
    {
        let inflight = inflight.clone();
        let p = path.clone();
        verif::install(Box::new(move |e: Event| {
            if let Op::DataWrite(_) = e.op {
                inflight.borrow_mut().push(file_state(&p).gen);
            }
            Action::Proceed
        }));
    }
    verif::set_chunks(&chunk_bounds(2));
    let mut rows = vec![];
    let mut bad = vec![];
    // one writer object; the start generation is patched into the mapped file between calls
    let img = image(true, 72, 1, 2, &rec_words(1));
    std::fs::write(&path, &img).unwrap();
    let mut w = ShmWriter::new(&path).unwrap();
    let mut file = std::fs::OpenOptions::new().write(true).open(&path).unwrap();
    use std::io::{Seek, SeekFrom, Write};
    let mut k = 1u64;
    for g in from..=to {
        let g = g as u16;
        file.seek(SeekFrom::Start(14)).unwrap();
        file.write_all(&g.to_ne_bytes()).unwrap();
        file.flush().unwrap();
        inflight.borrow_mut().clear();
        k += 1;
        let before = file_state(&path).gen;
        w.write(&rec(k));
        let after = file_state(&path).gen;
        let during: Vec<u16> = inflight.borrow().clone();
        // second update in a row: the SAME record except for its status (what the daemon publishes when chronyd goes
        // silent), or the identical record - the generation protocol does not depend on what is published
        inflight.borrow_mut().clear();
        {
            let ts = libc::timespec { tv_sec: k as i64, tv_nsec: k as i64 };
            let st = match (g % 3, status_of(k)) {
                (0, s) => s, // identical record
                (_, clock_bound_shm::ClockStatus::Unknown) => clock_bound_shm::ClockStatus::FreeRunning,
                (_, clock_bound_shm::ClockStatus::Synchronized) => clock_bound_shm::ClockStatus::FreeRunning,
                (_, clock_bound_shm::ClockStatus::FreeRunning) => clock_bound_shm::ClockStatus::Unknown,
            };
            w.write(&clock_bound_shm::ClockErrorBound::new(ts, ts, k as i64, k as u32, k as u32, st));
        }
        let after2 = file_state(&path).gen;
        let during2: Vec<u16> = inflight.borrow().clone();
        let mut why = vec![];
        if before != g {
            why.push(format!("start value not in place ({before})"));
        }
        if during.is_empty() || during.iter().any(|d| d % 2 != 1) {
            why.push(format!("in-flight generation {:?} not odd", during));
        }
        if g % 2 == 1 && during.iter().any(|d| *d != g) {
            why.push(format!("odd generation {g} left by a crashed writer not adopted: in flight {:?}", during));
        }
        if after % 2 != 0 || after == 0 {
            why.push(format!("generation {after} after the update"));
        }
        if after == g {
            why.push("generation unchanged by the update".to_string());
        }
        if during2.is_empty() || during2.iter().any(|d| d % 2 != 1) || after2 % 2 != 0 || after2 == 0 || after2 == after {
            why.push(format!("second update: in flight {:?}, after {after2}", during2));
        }
        if rows.len() < 3 || g >= 65533 {
            rows.push(json!({"start": g, "during": during, "after": after, "after2": after2}));
        }
        if !why.is_empty() && bad.len() < 10 {
            bad.push(json!({"start": g, "during": during, "after": after, "during2": during2, "after2": after2, "why": why}));
        }
    }
    verif::uninstall();
    drop(w);
    cleanup(&path);
    json!({"from": from, "to": to, "evaluations": (to - from + 1), "rows": rows, "bad": bad})
}

// ------------------------------------------------------------------------------------------ stall (C18)
fn stall_cmd(_args: &[String]) -> Value {
    // Reader vs a writer parked forever at each of its hook points inside write(), after the reader
    // passed each of its own points; and a writer that completes one publication between every two
    // reader steps. The oracle bounds the shared accesses of every call.
    let mut cases = 0usize;
    let mut violations = vec![];
    let mut errors = vec![];
    let mut samples = vec![];
    let mut max_acc = 0u64;
    let t0 = std::time::Instant::now();
    let w = 2usize;
    let bounds = chunk_bounds(w);
    let readers = vec!["r1".to_string()];
    // writer_stop: number of write() accesses the writer executes before stalling (0..=4 for W=2 without fence)
    for writer_stop in 0..=5usize {
        // reader_lead: number of reader accesses executed before the writer moves
        for reader_lead in 0..=5usize {
            for cached in [false, true] {
                let path = scratch_path(&format!("st{writer_stop}_{reader_lead}_{cached}"));
                let init = serde_json::json!({"ex": true, "len": 72, "mok": true, "size": 72, "ver": 1, "gen": 4, "w": [1, 1]});
                make_start_file(&path, &init, &bounds);
                let mut ctl = Ctl::new(&path, w, &readers, 1, 1);
                let r = (|| -> Result<(), String> {
                    ctl.start("W", Cmd::WNew)?;
                    while ctl.pending_of("W").is_some() {
                        ctl.release("W", Directive::Proceed)?;
                    }
                    ctl.start("r1", Cmd::ROpen)?;
                    if cached {
                        ctl.start("r1", Cmd::RCall)?;
                        while ctl.pending_of("r1").is_some() {
                            ctl.release("r1", Directive::Proceed)?;
                        }
                        // one complete publication the reader has not seen
                        ctl.start("W", Cmd::WWrite(2))?;
                        while ctl.pending_of("W").is_some() {
                            ctl.release("W", Directive::Proceed)?;
                        }
                    }
                    ctl.start("r1", Cmd::RCall)?;
                    for _ in 0..reader_lead {
                        if ctl.pending_of("r1").is_some() {
                            ctl.release("r1", Directive::Proceed)?;
                        }
                    }
                    ctl.start("W", Cmd::WWrite(3))?;
                    for _ in 0..writer_stop {
                        if ctl.pending_of("W").is_some() {
                            ctl.release("W", Directive::Proceed)?;
                        }
                    }
                    // the writer is now stalled (or done); the reader must finish on its own
                    let mut guard = 0;
                    while ctl.pending_of("r1").is_some() && guard < 3 {
                        guard += 1;
                        ctl.release("r1", Directive::FreeRun(12_000_000))?;
                    }
                    if ctl.pending_of("r1").is_some() {
                        ctl.oracle.violations.push(("C18".into(), "unbounded-work".into(), format!("snapshot() still running after 36M shared accesses with the writer stalled after {writer_stop} accesses of write()")));
                        ctl.release("r1", Directive::Crash)?;
                    }
                    // a later call must also terminate and serve cache or error
                    ctl.start("r1", Cmd::RCall)?;
                    let mut guard = 0;
                    while ctl.pending_of("r1").is_some() && guard < 3 {
                        guard += 1;
                        ctl.release("r1", Directive::FreeRun(12_000_000))?;
                    }
                    if ctl.pending_of("r1").is_some() {
                        ctl.oracle.violations.push(("C18".into(), "unbounded-work".into(), "second snapshot() against a stalled writer still running after 36M shared accesses".to_string()));
                        ctl.release("r1", Directive::Crash)?;
                    }
                    Ok(())
                })();
                cases += 1;
                if let Some((what, _w, acc, gl)) = &ctl.procs["r1"].last_done {
                    max_acc = max_acc.max(*acc);
                    if samples.len() < 3 && *acc > 100 {
                        samples.push(json!({"writer_stalled_after": writer_stop, "reader_lead": reader_lead, "cached": cached, "result": what, "accesses": acc, "generation_loads": gl}));
                    }
                }
                if let Err(e) = r {
                    errors.push(json!({"case": [writer_stop, reader_lead, cached], "error": e}));
                }
                if ctl.oracle.should_stop() && violations.len() < 10 {
                    violations.push(json!({"case": {"writer_stalled_after": writer_stop, "reader_lead": reader_lead, "cached": cached}, "violations": viol_json(&ctl.oracle.violations)}));
                }
                ctl.shutdown();
                cleanup(&path);
            }
        }
    }
    json!({"cases": cases, "max_accesses": max_acc, "bound": 2 + 9 * RETRY, "samples": samples, "violations": violations, "errors": errors, "wall_s": t0.elapsed().as_secs_f64()})
}

// ------------------------------------------------------------------------------------------ busy (C18)
/// A writer that never stops: one complete real write() lands before EVERY load the reader performs, so that every
/// attempt of one snapshot() call straddles a completed update. The call must still end (with an error) after its
/// bounded number of attempts - it may not start over, refill its budget, or wait for a quiet moment.
fn busy_cmd(_args: &[String]) -> Value {
    use clock_bound_shm::verif::{self, Action, Event, Op};
    use clock_bound_shm::{ShmReader, ShmWrite, ShmWriter};
    use std::cell::{Cell, RefCell};
    use std::rc::Rc;
    let path = scratch_path("busy");
    std::fs::write(&path, image(true, 72, 1, 4, &rec_words(1))).unwrap();
    let w = Rc::new(RefCell::new(ShmWriter::new(&path).unwrap()));
    let c = std::ffi::CString::new(path.to_string_lossy().as_bytes()).unwrap();
    let mut rd = ShmReader::new(&c).expect("reader");
    let _ = rd.snapshot(); // a cached snapshot exists
    let loads = Rc::new(Cell::new(0u64));
    let k = Rc::new(Cell::new(1u64));
    let cap = 3 * RETRY + 10;
    let mut cases = vec![];
    let mut violations = vec![];
    let t0 = std::time::Instant::now();
    for warm in [true, false] {
        if !warm {
            rd = ShmReader::new(&c).expect("reader"); // a reader that has no snapshot yet
        }
        loads.set(0);
        {
            let (w, loads, k) = (w.clone(), loads.clone(), k.clone());
            verif::install(Box::new(move |e: Event| {
                if let Op::Load = e.op {
                    loads.set(loads.get() + 1);
                    if loads.get() > cap {
                        return Action::Crash;
                    }
                    k.set(k.get() + 1);
                    w.borrow_mut().write(&rec(k.get())); // the hook is not re-entered by the writer's own accesses
                }
                Action::Proceed
            }));
        }
        let res = std::panic::catch_unwind(std::panic::AssertUnwindSafe(|| rd.snapshot().map(|c| words_of(c)[0]).map_err(|e| shm_err(&e))));
        verif::uninstall();
        let n = loads.get();
        let what = match &res {
            Ok(Ok(kk)) => format!("ok record {kk}"),
            Ok(Err(e)) => format!("error {e}"),
            Err(_) => "still running (cut off)".to_string(),
        };
        cases.push(json!({"reader": if warm { "has a cached snapshot" } else { "fresh" }, "loads_in_one_call": n, "publications": k.get(), "result": what}));
        if res.is_err() || n > RETRY + 3 {
            violations.push(json!({"case": {"reader": if warm { "warm" } else { "fresh" }}, "violations": [{"property": "C18", "signature": "unbounded-work",
                "what": format!("one snapshot() call against a writer that completes an update before every load performed {n} loads (budget {RETRY} attempts) and {}", if res.is_err() { "was still running" } else { "only then returned" })}]}));
        }
    }
    drop(rd);
    cleanup(&path);
    json!({"cases": cases, "violations": violations, "wall_s": t0.elapsed().as_secs_f64()})
}

// ------------------------------------------------------------------------------------------ halfwipe (C04 c/d)
/// The daemon dies while (re-)initialising an UNUSABLE leftover file - after every number of steps of
/// ShmWriter::new - and is restarted. The transition cover cannot drive this from every leftover file (after the
/// truncation all of them are the same model state), so it is enumerated here: leftover files that are unusable
/// for one field only and otherwise look like a segment carrying a record nobody published. Whatever the point of
/// death: no client may ever obtain that record, and after the restart and one publication new clients attach and
/// read exactly what was published.
fn halfwipe_cmd(_args: &[String]) -> Value {
    let w = 2usize;
    let bounds = chunk_bounds(w);
    let readers = vec!["r1".to_string(), "r2".to_string()];
    let mut cases = 0usize;
    let mut violations = vec![];
    let mut errors = vec![];
    let t0 = std::time::Instant::now();
    let leftovers = [
        ("bad magic, plausible version/generation, foreign record", serde_json::json!({"ex": true, "len": 72, "mok": false, "size": 72, "ver": 1, "gen": 4, "w": [9, 9]})),
        ("declared size too small, foreign record", serde_json::json!({"ex": true, "len": 72, "mok": true, "size": 40, "ver": 1, "gen": 6, "w": [9, 9]})),
        ("bad magic, odd generation, half a foreign record", serde_json::json!({"ex": true, "len": 72, "mok": false, "size": 72, "ver": 2, "gen": 7, "w": [9, 8]})),
    ];
    for (lname, init) in leftovers.iter() {
        for die_after in 0..=14usize {
            let path = scratch_path(&format!("halfwipe_{die_after}"));
            make_start_file(&path, init, &bounds);
            let mut ctl = Ctl::new(&path, w, &readers, 1, 1);
            let mut died_at = String::new();
            let r = (|| -> Result<(), String> {
                let mut run_all = |ctl: &mut Ctl, who: &str| -> Result<(), String> {
                    let mut g = 0;
                    while ctl.pending_of(who).is_some() && g < 64 {
                        g += 1;
                        ctl.release(who, Directive::Proceed)?;
                    }
                    Ok(())
                };
                ctl.start("W", Cmd::WNew)?;
                let mut g = 0;
                while ctl.pending_of("W").is_some() && g < die_after {
                    g += 1;
                    ctl.release("W", Directive::Proceed)?;
                }
                if let Some(p) = ctl.pending_of("W") {
                    died_at = p.clone();
                    ctl.release("W", Directive::Crash)?;
                } else {
                    died_at = "(start-up completed)".into();
                }
                // a client that comes along while the daemon is down
                ctl.start("r1", Cmd::ROpen)?;
                if ctl.procs["r1"].attached {
                    ctl.start("r1", Cmd::RCall)?;
                    run_all(&mut ctl, "r1")?;
                }
                // restart, one publication, a new client
                if !ctl.procs["W"].alive {
                    ctl.start("W", Cmd::WNew)?;
                    run_all(&mut ctl, "W")?;
                }
                if ctl.procs["r1"].attached {
                    ctl.start("r1", Cmd::RCall)?;
                    run_all(&mut ctl, "r1")?;
                }
                ctl.start("W", Cmd::WWrite(1))?;
                run_all(&mut ctl, "W")?;
                ctl.start("r2", Cmd::ROpen)?;
                if ctl.procs["r2"].attached {
                    ctl.start("r2", Cmd::RCall)?;
                    run_all(&mut ctl, "r2")?;
                }
                Ok(())
            })();
            cases += 1;
            if let Err(e) = r {
                if !ctl.poisoned {
                    errors.push(json!({"case": [lname, die_after], "error": e}));
                }
            }
            if !ctl.oracle.violations.is_empty() && violations.len() < 12 {
                violations.push(json!({"case": {"leftover": lname, "daemon_died_after_steps_of_new": die_after, "at": died_at}, "violations": viol_json(&ctl.oracle.violations)}));
            }
            ctl.shutdown();
            cleanup(&path);
        }
    }
    json!({"cases": cases, "violations": violations, "errors": errors, "wall_s": t0.elapsed().as_secs_f64()})
}

// ------------------------------------------------------------------------------------------ wrap (C03 exception, C02 finding)
fn wrap_cmd(args: &[String]) -> Value {
    let only = arg(args, "--only");
    // (a) a reader idle across n publications, n around the period 32767 of the 16-bit generation
    // (b) a reader suspended inside one snapshot() call across n publications
    let w = 2usize;
    let bounds = chunk_bounds(w);
    let readers = vec!["r1".to_string()];
    let mut cases = vec![];
    let mut violations = vec![];
    let mut errors = vec![];
    let t0 = std::time::Instant::now();
    for (mode, n) in [("idle", 32766u64), ("idle", 32767), ("idle", 32768), ("idle", 65534), ("incall", 32766), ("incall", 32767), ("incall", 32768)] {
        if let Some(o) = &only {
            if o != mode {
                continue;
            }
        }
        let path = scratch_path(&format!("wrap_{mode}_{n}"));
        let init = serde_json::json!({"ex": true, "len": 72, "mok": true, "size": 72, "ver": 1, "gen": 4, "w": [1, 1]});
        make_start_file(&path, &init, &bounds);
        let mut ctl = Ctl::new(&path, w, &readers, 1, 1);
        let mut result = String::new();
        let r = (|| -> Result<(), String> {
            ctl.start("W", Cmd::WNew)?;
            while ctl.pending_of("W").is_some() {
                ctl.release("W", Directive::Proceed)?;
            }
            ctl.start("r1", Cmd::ROpen)?;
            ctl.start("r1", Cmd::RCall)?;
            if mode == "idle" {
                while ctl.pending_of("r1").is_some() {
                    ctl.release("r1", Directive::Proceed)?;
                }
            } else {
                // version load, first generation load, first chunk of the record
                for _ in 0..3 {
                    ctl.release("r1", Directive::Proceed)?;
                }
            }
            for k in 2..(2 + n) {
                ctl.start("W", Cmd::WWrite(k))?;
                ctl.release("W", Directive::FreeRun(100))?;
            }
            if mode == "idle" {
                ctl.start("r1", Cmd::RCall)?;
            }
            while ctl.pending_of("r1").is_some() {
                ctl.release("r1", Directive::Proceed)?;
            }
            if let Some((what, words, _, _)) = &ctl.procs["r1"].last_done {
                result = format!("{what} {:?}", words.map(|w| (w[0], w[4])));
            }
            Ok(())
        })();
        if let Err(e) = r {
            errors.push(json!({"case": [mode, n], "error": e}));
        }
        cases.push(json!({"mode": mode, "publications_in_between": n, "result": result, "generation": file_state(&path).gen,
                          "violations": viol_json(&ctl.oracle.violations)}));
        for (p, sig, what) in ctl.oracle.violations.iter() {
            let sig = if mode == "incall" && n % 32767 == 0 && sig == "torn-snapshot" { "in-call-generation-wrap".to_string() } else { sig.clone() };
            violations.push(json!({"case": {"mode": mode, "publications_in_between": n}, "violations": [{"property": p, "signature": sig, "what": what}]}));
        }
        ctl.shutdown();
        cleanup(&path);
    }
    json!({"cases": cases, "violations": violations, "errors": errors, "wall_s": t0.elapsed().as_secs_f64()})
}

// ------------------------------------------------------------------------------------------ extwipe
fn extwipe_cmd(_args: &[String]) -> Value {
    // Out-of-protocol event the reader's own comments claim to survive: the backing file of an ATTACHED reader is
    // damaged externally, the restarted daemon finds it unusable and re-initialises it (version 1, generation 0
    // until the first publication). The reader must keep serving its previous snapshot (never an older or empty
    // one) and then follow the new publications. The reader is kept idle while the file is truncated.
    let mut cases = vec![];
    let mut violations = vec![];
    let mut errors = vec![];
    let w = 2usize;
    let bounds = chunk_bounds(w);
    let readers = vec!["r1".to_string()];
    for (name, start_gen, stop_new_at) in [("gen4-full-new", 4u64, 99usize), ("gen2-full-new", 2, 99), ("gen4-new-dies-before-version", 4, 9), ("gen4-new-dies-after-version", 4, 11)] {
        let path = scratch_path(&format!("extwipe_{name}"));
        let init = serde_json::json!({"ex": true, "len": 72, "mok": true, "size": 72, "ver": 1, "gen": start_gen, "w": [1, 1]});
        make_start_file(&path, &init, &bounds);
        let mut ctl = Ctl::new(&path, w, &readers, 1, 1);
        let mut seen = vec![];
        let r = (|| -> Result<(), String> {
            let mut run_all = |ctl: &mut Ctl, who: &str| -> Result<(), String> {
                let mut g = 0;
                while ctl.pending_of(who).is_some() && g < 64 {
                    g += 1;
                    ctl.release(who, Directive::Proceed)?;
                }
                Ok(())
            };
            ctl.start("W", Cmd::WNew)?;
            run_all(&mut ctl, "W")?;
            ctl.start("r1", Cmd::ROpen)?;
            ctl.start("W", Cmd::WWrite(2))?;
            run_all(&mut ctl, "W")?;
            ctl.start("r1", Cmd::RCall)?;
            run_all(&mut ctl, "r1")?;
            seen.push(ctl.procs["r1"].last_done.clone().map(|d| (d.0, d.1.map(|w| w[0]))));
            ctl.start("W", Cmd::WDrop)?;
            // external damage: the magic number is clobbered
            ctl.oracle.external_corruption = true;
            {
                use std::io::{Seek, SeekFrom, Write};
                let mut f = std::fs::OpenOptions::new().write(true).open(&path).map_err(|e| e.to_string())?;
                f.seek(SeekFrom::Start(0)).map_err(|e| e.to_string())?;
                f.write_all(&[0u8; 4]).map_err(|e| e.to_string())?;
            }
            ctl.start("W", Cmd::WNew)?;
            let mut g = 0;
            while ctl.pending_of("W").is_some() && g < stop_new_at {
                g += 1;
                ctl.release("W", Directive::Proceed)?;
            }
            if ctl.pending_of("W").is_some() {
                ctl.release("W", Directive::Crash)?;
            }
            // the reader, attached all along, polls while the segment is (or stays) uninitialised
            for _ in 0..2 {
                ctl.start("r1", Cmd::RCall)?;
                run_all(&mut ctl, "r1")?;
                seen.push(ctl.procs["r1"].last_done.clone().map(|d| (d.0, d.1.map(|w| w[0]))));
            }
            if !ctl.procs["W"].alive {
                ctl.start("W", Cmd::WNew)?;
                run_all(&mut ctl, "W")?;
            }
            ctl.start("W", Cmd::WWrite(3))?;
            run_all(&mut ctl, "W")?;
            ctl.start("r1", Cmd::RCall)?;
            run_all(&mut ctl, "r1")?;
            seen.push(ctl.procs["r1"].last_done.clone().map(|d| (d.0, d.1.map(|w| w[0]))));
            Ok(())
        })();
        if let Err(e) = r {
            errors.push(json!({"case": name, "error": e}));
        }
        cases.push(json!({"case": name, "snapshots": format!("{seen:?}"), "violations": viol_json(&ctl.oracle.violations)}));
        if !ctl.oracle.violations.is_empty() {
            violations.push(json!({"case": name, "violations": viol_json(&ctl.oracle.violations)}));
        }
        ctl.shutdown();
        cleanup(&path);
    }
    json!({"cases": cases, "violations": violations, "errors": errors})
}

#[allow(dead_code)]
fn unused(_: &Path) {}
