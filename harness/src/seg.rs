//! Segment harness: real `ShmWriter` / `ShmReader` objects, one real thread per model process,
//! parked by the cfg-gated shim before every shared access and released one step at a time by a
//! controller. The projection of the segment is the raw bytes of the backing file decoded at the
//! offsets of docs/PROTOCOL.md, never the Rust structs.

use clock_bound_shm::verif::{self, Action, Event, Op};
use clock_bound_shm::{ClockErrorBound, ClockStatus, ShmReader, ShmWrite, ShmWriter};
use serde_json::{json, Value};
use std::cell::{Cell, RefCell};
use std::collections::BTreeMap;
use std::path::{Path, PathBuf};
use std::rc::Rc;
use std::sync::mpsc::{channel, Receiver, RecvTimeoutError, Sender};
use std::time::Duration;

pub const WORDS: usize = 7;
/// Magic number as two native-endian u32 (docs/PROTOCOL.md lists the bytes of each u32 most significant first)
pub fn magic() -> [u8; 8] {
    let mut m = [0u8; 8];
    m[0..4].copy_from_slice(&0x414D5A4E_u32.to_ne_bytes());
    m[4..8].copy_from_slice(&0x43420200_u32.to_ne_bytes());
    m
}
pub const RETRY: u64 = 1_000_000;

// ------------------------------------------------------------------------------------------ records
pub fn status_of(k: u64) -> ClockStatus {
    if k == 0 {
        ClockStatus::Unknown
    } else if k % 2 == 1 {
        ClockStatus::Synchronized
    } else {
        ClockStatus::FreeRunning
    }
}

/// Record number k: every word identifies k (k = 0 is the all-zero record).
pub fn rec(k: u64) -> ClockErrorBound {
    let ts = libc::timespec {
        tv_sec: k as i64,
        tv_nsec: k as i64,
    };
    ClockErrorBound::new(ts, ts, k as i64, k as u32, k as u32, status_of(k))
}

pub fn words_of(c: &ClockErrorBound) -> [u64; WORDS] {
    let mut w: [u64; WORDS] = unsafe { std::mem::transmute_copy(c) };
    w[6] &= 0xffff_ffff; // padding after the status is not part of the record
    w
}

pub fn rec_words(k: u64) -> [u64; WORDS] {
    let st = status_of(k) as u64;
    [k, k, k, k, k, k | (k << 32), st]
}

/// Ok(k) if the words are exactly record k, else a description of the mixture.
pub fn decode_uniform(w: &[u64; WORDS]) -> Result<u64, String> {
    let k = w[0];
    if *w == rec_words(k) {
        Ok(k)
    } else {
        Err(format!("words {:?} are not one published record", w))
    }
}

pub fn chunk_bounds(w: usize) -> Vec<usize> {
    match w {
        2 => vec![0, 4, 7],
        7 => (0..=7).collect(),
        1 => vec![0, 7],
        _ => panic!("unsupported W={w}"),
    }
}

/// Expected real words for model words (one value per chunk).
pub fn expand(model_words: &[u64], bounds: &[usize]) -> [u64; WORDS] {
    let mut out = [0u64; WORDS];
    for (c, k) in model_words.iter().enumerate() {
        let rw = rec_words(*k);
        for j in bounds[c]..bounds[c + 1] {
            out[j] = rw[j];
        }
    }
    out
}

// ------------------------------------------------------------------------------------------ file projection
#[derive(Debug, Clone, PartialEq)]
pub struct FileState {
    pub exists: bool,
    pub ino: u64,
    pub len: u64,
    pub magic_ok: bool,
    pub size: u32,
    pub ver: u16,
    pub gen: u16,
    pub words: [u64; WORDS],
    pub raw: Vec<u8>,
}

pub fn file_state(path: &Path) -> FileState {
    use std::os::unix::fs::MetadataExt;
    let md = std::fs::metadata(path);
    let mut fs = FileState {
        exists: false,
        ino: 0,
        len: 0,
        magic_ok: false,
        size: 0,
        ver: 0,
        gen: 0,
        words: [0; WORDS],
        raw: vec![],
    };
    let Ok(md) = md else { return fs };
    if !md.is_file() {
        fs.exists = true;
        return fs;
    }
    let b = std::fs::read(path).unwrap_or_default();
    fs.exists = true;
    fs.ino = md.ino();
    fs.len = b.len() as u64;
    if b.len() >= 8 {
        fs.magic_ok = b[0..8] == magic();
    }
    if b.len() >= 12 {
        fs.size = u32::from_ne_bytes(b[8..12].try_into().unwrap());
    }
    if b.len() >= 14 {
        fs.ver = u16::from_ne_bytes(b[12..14].try_into().unwrap());
    }
    if b.len() >= 16 {
        fs.gen = u16::from_ne_bytes(b[14..16].try_into().unwrap());
    }
    if b.len() >= 72 {
        for i in 0..WORDS {
            fs.words[i] = u64::from_ne_bytes(b[16 + 8 * i..24 + 8 * i].try_into().unwrap());
        }
        fs.words[6] &= 0xffff_ffff;
    }
    fs.raw = b;
    fs
}

/// Build the concrete file for an abstract start file (projection object of the spec).
pub fn make_start_file(path: &Path, exp: &Value, bounds: &[usize]) {
    let _ = std::fs::remove_file(path);
    if !exp["ex"].as_bool().unwrap() {
        return;
    }
    let len = exp["len"].as_u64().unwrap() as usize;
    let mw: Vec<u64> = exp["w"].as_array().unwrap().iter().map(|x| x.as_u64().unwrap()).collect();
    let img = image(
        exp["mok"].as_bool().unwrap(),
        exp["size"].as_u64().unwrap() as u32,
        exp["ver"].as_u64().unwrap() as u16,
        exp["gen"].as_u64().unwrap() as u16,
        &expand(&mw, bounds),
    );
    std::fs::write(path, &img[..len.min(img.len())]).unwrap();
}

pub fn image(magic_ok: bool, size: u32, ver: u16, gen: u16, words: &[u64; WORDS]) -> Vec<u8> {
    let mut img = vec![0u8; 72];
    img[0..8].copy_from_slice(&magic());
    if !magic_ok {
        img[3] ^= 0x55;
    }
    img[8..12].copy_from_slice(&size.to_ne_bytes());
    img[12..14].copy_from_slice(&ver.to_ne_bytes());
    img[14..16].copy_from_slice(&gen.to_ne_bytes());
    for i in 0..WORDS {
        img[16 + 8 * i..24 + 8 * i].copy_from_slice(&words[i].to_ne_bytes());
    }
    img
}

// ------------------------------------------------------------------------------------------ actors
#[derive(Debug, Clone)]
pub enum Directive {
    Proceed,
    Serve(u64),
    ServeRec([u64; WORDS]),
    Crash,
    /// proceed, and keep proceeding without parking for up to this many further accesses
    FreeRun(u64),
}

#[derive(Debug, Clone)]
pub enum Cmd {
    WNew,
    WWrite(u64),
    WDrop,
    ROpen,
    RCall,
    RClose,
    Exit,
}

#[derive(Debug, Clone)]
pub enum Msg {
    /// parked before this access
    Pending { desc: String, ord: String, prev: Option<u64>, accesses: u64, gen_loads: u64 },
    /// command finished
    Done { what: String, words: Option<[u64; WORDS]>, prev: Option<u64>, accesses: u64, gen_loads: u64 },
}

struct HookState {
    path: PathBuf,
    ranges: RefCell<Vec<(usize, usize)>>,
    last: Cell<Option<u64>>,
    free: Cell<u64>,
    accesses: Cell<u64>,
    gen_loads: Cell<u64>,
    log_all: Cell<bool>,
}

impl HookState {
    fn refresh(&self) {
        let maps = std::fs::read_to_string("/proc/self/maps").unwrap_or_default();
        let p = self.path.to_string_lossy().to_string();
        let mut v = vec![];
        for l in maps.lines() {
            if l.ends_with(&p) || l.ends_with(&(p.clone() + " (deleted)")) {
                let r: Vec<usize> = l
                    .split_whitespace()
                    .next()
                    .unwrap()
                    .split('-')
                    .map(|x| usize::from_str_radix(x, 16).unwrap())
                    .collect();
                v.push((r[0], r[1]));
            }
        }
        *self.ranges.borrow_mut() = v;
    }
    fn offset(&self, addr: usize) -> Option<usize> {
        for (lo, hi) in self.ranges.borrow().iter() {
            if addr >= *lo && addr < *hi {
                return Some(addr - lo);
            }
        }
        None
    }
    fn classify(&self, e: &Event) -> Option<String> {
        match e.op {
            Op::Point(n) => Some(format!("point:{n}")),
            Op::Fence => Some("fence".into()),
            Op::DataWrite(c) => Some(format!("dw:{c}")),
            Op::DataRead(c) => Some(format!("dr:{c}")),
            Op::Load | Op::Store => {
                let mut off = self.offset(e.addr);
                if off.is_none() {
                    // the mapping may be new (writer: created between two points)
                    self.refresh();
                    off = self.offset(e.addr);
                }
                off.map(|o| {
                    format!(
                        "{}:{}",
                        if e.op == Op::Load { "load" } else { "store" },
                        match o {
                            12 => "ver".to_string(),
                            14 => "gen".to_string(),
                            o => format!("off{o}"),
                        }
                    )
                })
            }
        }
    }
}

fn ord_str(o: Option<std::sync::atomic::Ordering>) -> String {
    match o {
        None => "-".into(),
        Some(o) => format!("{o:?}"),
    }
}

pub struct Actor {
    pub name: String,
    cmd: Sender<Cmd>,
    go: Sender<Directive>,
    evt: Receiver<Msg>,
    pub pending: Option<(String, String)>,
    pub busy: bool,
}

pub fn spawn_actor(name: &str, path: &Path, bounds: Vec<usize>) -> Actor {
    let (ctx, crx) = channel::<Cmd>();
    let (gtx, grx) = channel::<Directive>();
    let (etx, erx) = channel::<Msg>();
    let path = path.to_path_buf();
    let tname = name.to_string();
    std::thread::Builder::new()
        .name(tname)
        .spawn(move || actor_main(path, bounds, crx, grx, etx))
        .unwrap();
    Actor {
        name: name.to_string(),
        cmd: ctx,
        go: gtx,
        evt: erx,
        pending: None,
        busy: false,
    }
}

fn actor_main(path: PathBuf, bounds: Vec<usize>, crx: Receiver<Cmd>, grx: Receiver<Directive>, etx: Sender<Msg>) {
    verif::set_chunks(&bounds);
    let hs = Rc::new(HookState {
        path: path.clone(),
        ranges: RefCell::new(vec![]),
        last: Cell::new(None),
        free: Cell::new(0),
        accesses: Cell::new(0),
        gen_loads: Cell::new(0),
        log_all: Cell::new(false),
    });
    {
        let hs = hs.clone();
        let etx = etx.clone();
        verif::install(Box::new(move |e: Event| {
            let Some(desc) = hs.classify(&e) else { return Action::Proceed };
            if !desc.starts_with("point:") && desc != "fence" {
                hs.accesses.set(hs.accesses.get() + 1);
                if desc == "load:gen" {
                    hs.gen_loads.set(hs.gen_loads.get() + 1);
                }
            }
            if hs.free.get() > 0 {
                // the free-run budget counts shared accesses only (fences and points are free)
                if !desc.starts_with("point:") && desc != "fence" {
                    hs.free.set(hs.free.get() - 1);
                }
                return Action::Proceed;
            }
            etx.send(Msg::Pending {
                desc: desc.clone(),
                ord: ord_str(e.ord),
                prev: hs.last.take(),
                // counts before this access
                accesses: hs.accesses.get() - if desc.starts_with("point:") || desc == "fence" { 0 } else { 1 },
                gen_loads: hs.gen_loads.get() - if desc == "load:gen" { 1 } else { 0 },
            })
            .unwrap();
            match grx.recv().unwrap() {
                Directive::Proceed => Action::Proceed,
                Directive::Serve(v) => Action::Serve(v),
                Directive::ServeRec(w) => Action::ServeRec(w),
                Directive::Crash => Action::Crash,
                Directive::FreeRun(n) => {
                    hs.free.set(n);
                    Action::Proceed
                }
            }
        }));
    }
    {
        let hs = hs.clone();
        verif::install_after(Box::new(move |e: Event, v: u64| match e.op {
            Op::Load | Op::Store => {
                if hs.offset(e.addr).is_some() {
                    hs.last.set(Some(v))
                }
            }
            Op::DataRead(_) | Op::DataWrite(_) => hs.last.set(Some(v)),
            _ => (),
        }));
    }
    let cpath = std::ffi::CString::new(path.to_string_lossy().as_bytes()).unwrap();
    let mut writer: Option<ShmWriter> = None;
    let mut reader: Option<ShmReader> = None;
    for c in crx {
        if !matches!(c, Cmd::WWrite(_) | Cmd::RCall) || hs.ranges.borrow().is_empty() {
            hs.refresh();
        }
        hs.accesses.set(0);
        hs.gen_loads.set(0);
        hs.free.set(0);
        hs.last.set(None);
        let res = std::panic::catch_unwind(std::panic::AssertUnwindSafe(|| -> (String, Option<[u64; WORDS]>) {
            match c {
                Cmd::WNew => {
                    writer = None;
                    match ShmWriter::new(&path) {
                        Ok(w) => {
                            writer = Some(w);
                            ("ok".into(), None)
                        }
                        Err(e) => (format!("ioerr:{:?}", e.kind()), None),
                    }
                }
                Cmd::WWrite(k) => {
                    writer.as_mut().expect("no writer").write(&rec(k));
                    ("ok".into(), None)
                }
                Cmd::WDrop => {
                    writer = None;
                    ("ok".into(), None)
                }
                Cmd::ROpen => match ShmReader::new(&cpath) {
                    Ok(r) => {
                        reader = Some(r);
                        ("Ok".into(), None)
                    }
                    Err(e) => (shm_err(&e), None),
                },
                Cmd::RCall => match reader.as_mut().expect("no reader").snapshot() {
                    Ok(c) => ("ok".into(), Some(words_of(c))),
                    Err(e) => (format!("err:{}", shm_err(&e)), None),
                },
                Cmd::RClose => {
                    reader = None;
                    ("ok".into(), None)
                }
                Cmd::Exit => ("exit".into(), None),
            }
        }));
        let (what, words) = match res {
            Ok(x) => x,
            Err(p) => {
                if p.downcast_ref::<verif::VerifCrash>().is_some() {
                    // simulated process death: whatever the process held is gone
                    writer = None;
                    ("crashed".into(), None)
                } else {
                    let m = p
                        .downcast_ref::<String>()
                        .cloned()
                        .or_else(|| p.downcast_ref::<&str>().map(|s| s.to_string()))
                        .unwrap_or_default();
                    (format!("panic:{m}"), None)
                }
            }
        };
        let exit = what == "exit";
        let _ = etx.send(Msg::Done {
            what,
            words,
            prev: hs.last.take(),
            accesses: hs.accesses.get(),
            gen_loads: hs.gen_loads.get(),
        });
        if exit {
            break;
        }
    }
}

pub fn shm_err(e: &clock_bound_shm::ShmError) -> String {
    use clock_bound_shm::ShmError::*;
    match e {
        SyscallError(errno, what) => format!("Syscall:{}:{}", errno.0, what.to_string_lossy()),
        SegmentNotInitialized => "NotInitialized".into(),
        SegmentMalformed => "Malformed".into(),
        CausalityBreach => "CausalityBreach".into(),
    }
}

impl Actor {
    pub fn wait(&mut self) -> Result<Msg, String> {
        let mut carried: Option<u64> = None;
        loop {
            match self.evt.recv_timeout(Duration::from_secs(60)) {
                Ok(mut m) => {
                    match &mut m {
                        Msg::Pending { desc, ord, prev, .. } => {
                            if desc == "point:new.done" {
                                // no model counterpart: release at once, keep the value of the last access
                                carried = *prev;
                                self.go.send(Directive::Proceed).unwrap();
                                continue;
                            }
                            if prev.is_none() {
                                *prev = carried;
                            }
                            self.pending = Some((desc.clone(), ord.clone()));
                        }
                        Msg::Done { prev, .. } => {
                            if prev.is_none() {
                                *prev = carried;
                            }
                            self.pending = None;
                            self.busy = false;
                        }
                    }
                    return Ok(m);
                }
                Err(RecvTimeoutError::Timeout) => return Err(format!("actor {} did not reach a hook or return within 60 s (real hang)", self.name)),
                Err(e) => return Err(format!("actor {} died: {e}", self.name)),
            }
        }
    }
    pub fn start(&mut self, c: Cmd) -> Result<Msg, String> {
        assert!(!self.busy, "actor {} busy", self.name);
        self.busy = true;
        self.cmd.send(c).map_err(|e| e.to_string())?;
        self.wait()
    }
    pub fn release(&mut self, d: Directive) -> Result<Msg, String> {
        assert!(self.pending.is_some(), "actor {} has nothing pending", self.name);
        self.pending = None;
        self.go.send(d).map_err(|e| e.to_string())?;
        self.wait()
    }
    pub fn stop(&mut self) {
        if self.pending.is_some() {
            let _ = self.go.send(Directive::Crash);
            let _ = self.evt.recv_timeout(Duration::from_secs(5));
        }
        let _ = self.cmd.send(Cmd::Exit);
    }
}

// ------------------------------------------------------------------------------------------ O1 oracle
/// Observational oracle: evaluates the property predicates of C02 C03 C04 C11 C18 on what the
/// real code did, independently of the specification's step structure.
pub struct Oracle {
    pub path: PathBuf,
    pub bounds: Vec<usize>,
    /// publication index started last (ghost)
    pub wk: u64,
    /// last completed publication present in the file
    pub pub_done: u64,
    /// generation value the file had after each completed publication
    pub gen_of_pub: BTreeMap<u64, u16>,
    /// number of completed publications so far, and its value when each publication completed
    pub completed_total: u64,
    pub completed_at: BTreeMap<u64, u64>,
    pub writer_alive: bool,
    pub in_write: bool,
    pub odd_stored: bool,
    pub gen_before_write: u16,
    pub completed_by_live: u64,
    pub readers: BTreeMap<String, ReaderObs>,
    pub violations: Vec<(String, String, String)>, // (property, signature, what)
    pub start_usable: bool,
    pub pre_new: Option<FileState>,
    pub wiping: bool,
    /// an update (or a re-initialisation) was started and has not completed - from the writer's side,
    /// whatever the generation field says; survives the death of the writer
    pub unfinished: bool,
    /// stop-on set: properties whose violation ends a run early (empty = all)
    pub stop_on: Vec<String>,
    /// the backing file was damaged by something outside the protocol (scenario `extwipe`): a wipe under an
    /// attached reader is then expected and not held against the writer
    pub external_corruption: bool,
    /// sequentially consistent memory (false while stale values are served: CatchUp is not required then)
    pub sc: bool,
}

#[derive(Default, Debug, Clone)]
pub struct ReaderObs {
    pub attached: bool,
    pub last_k: u64,
    pub in_call: bool,
    pub quiet: bool,
    pub calls: u64,
    pub last_words: [u64; WORDS],
}

impl Oracle {
    pub fn new(path: &Path, bounds: Vec<usize>, wk: u64, pub_done: u64) -> Self {
        let fs = file_state(path);
        let mut gen_of_pub = BTreeMap::new();
        if pub_done > 0 {
            gen_of_pub.insert(pub_done, fs.gen);
        }
        let unfinished0 = Self::in_flight(&fs) || !fs.exists;
        Oracle {
            path: path.to_path_buf(),
            bounds,
            wk,
            pub_done,
            gen_of_pub,
            completed_total: 0,
            completed_at: {
                let mut m = BTreeMap::new();
                if pub_done > 0 {
                    m.insert(pub_done, 0);
                }
                m
            },
            writer_alive: false,
            in_write: false,
            odd_stored: false,
            gen_before_write: 0,
            completed_by_live: 0,
            readers: BTreeMap::new(),
            violations: vec![],
            start_usable: false,
            pre_new: None,
            wiping: false,
            unfinished: unfinished0,
            stop_on: vec![],
            external_corruption: false,
            sc: true,
        }
    }
    /// whether a violation that ends the run was recorded
    pub fn should_stop(&self) -> bool {
        self.violations.iter().any(|v| self.stop_on.is_empty() || self.stop_on.contains(&v.0))
    }
    fn viol(&mut self, p: &str, sig: &str, what: String) {
        self.violations.push((p.to_string(), sig.to_string(), what));
    }
    pub fn in_flight(fs: &FileState) -> bool {
        fs.len < 72 || fs.gen % 2 == 1 || fs.gen == 0 || fs.ver == 0
    }
    fn quiet_off(&mut self) {
        for r in self.readers.values_mut() {
            r.quiet = false;
        }
    }
    /// the writer process is about to run `ShmWriter::new`
    pub fn w_new_start(&mut self) {
        let fs = file_state(&self.path);
        self.start_usable = fs.exists && fs.len >= 16 && fs.magic_ok && fs.ver != 0 && fs.gen != 0 && fs.size >= 72;
        self.pre_new = Some(fs);
        self.writer_alive = true;
        self.in_write = false;
        self.completed_by_live = 0;
    }
    /// the writer performed one step inside new()/wipe(); `desc` is the access it just executed
    pub fn w_new_step(&mut self, desc: &str) {
        let fs = file_state(&self.path);
        if desc == "point:wipe.create" {
            self.wiping = true;
            self.unfinished = true;
            self.pub_done = 0;
            self.quiet_off();
            if self.start_usable {
                let pre = self.pre_new.clone().unwrap();
                self.viol("C04", "usable-segment-wiped", format!("ShmWriter::new wiped a usable segment (ver {}, gen {}, len {})", pre.ver, pre.gen, pre.len));
                self.viol("C11", "generation-back-to-zero", format!("a restart re-initialised a published segment: generation went from {} back to 0", pre.gen));
            }
            if self.readers.values().any(|r| r.attached) && !self.external_corruption {
                self.viol("C04", "wipe-under-attached-reader", "segment truncated while a reader is attached".to_string());
            }
        }
        if desc == "store:ver" {
            self.quiet_off();
        }
        let _ = fs;
    }
    /// ShmWriter::new returned Ok
    pub fn w_new_done(&mut self) {
        let fs = file_state(&self.path);
        let pre = self.pre_new.clone().unwrap();
        if self.start_usable {
            if fs.ino != pre.ino {
                self.viol("C04", "inode-changed", format!("usable segment re-created: inode {} -> {}", pre.ino, fs.ino));
            }
            if fs.len != pre.len || fs.gen != pre.gen || fs.words != pre.words || fs.size != pre.size || !fs.magic_ok {
                self.viol("C04", "takeover-not-in-place", format!("usable segment modified by new(): before gen {} words {:?}, after gen {} words {:?}", pre.gen, pre.words, fs.gen, fs.words));
            }
        } else {
            // re-created: laid out as documented (C16), not yet usable (C04)
            if fs.len != 72 || !fs.magic_ok || fs.size != 72 || fs.gen != 0 || fs.words != [0; WORDS] {
                self.viol("C16", "recreated-layout", format!("re-created file is not the documented 72-byte layout: len {} magic_ok {} size {} gen {} words {:?}", fs.len, fs.magic_ok, fs.size, fs.gen, fs.words));
            }
        }
        if fs.ver != 1 {
            self.viol("C16", "version-after-new", format!("version {} after ShmWriter::new", fs.ver));
        }
        self.wiping = false;
    }
    pub fn w_died(&mut self) {
        self.writer_alive = false;
        self.in_write = false;
        self.odd_stored = false;
    }
    /// write(k) entered
    pub fn w_write_start(&mut self, k: u64) {
        self.wk = k;
        self.in_write = true;
        self.odd_stored = false;
        self.gen_before_write = file_state(&self.path).gen;
    }
    /// the writer executed one access inside write()
    pub fn w_write_step(&mut self, desc: &str) {
        let fs = file_state(&self.path);
        if desc.starts_with("store:") || desc.starts_with("dw:") {
            self.quiet_off();
            self.unfinished = true;
        }
        if desc == "store:gen" && !self.odd_stored {
            self.odd_stored = true;
            if fs.gen % 2 != 1 {
                self.viol("C11", "even-during-update", format!("generation {} is even after the first generation store of an update (was {})", fs.gen, self.gen_before_write));
            }
        } else if desc.starts_with("dw:") || desc == "fence" {
            if self.odd_stored && fs.gen % 2 != 1 {
                self.viol("C11", "even-during-update", format!("generation {} is even while the record is being written", fs.gen));
            }
            if !self.odd_stored {
                self.viol("C11", "data-before-odd", format!("record written while generation {} does not mark an update in flight", fs.gen));
            }
        }
        if self.odd_stored && fs.gen == 0 {
            self.viol("C11", "generation-zero", format!("generation returned to 0 during write() (was {})", self.gen_before_write));
        }
    }
    /// write() returned
    pub fn w_write_done(&mut self) {
        let fs = file_state(&self.path);
        self.in_write = false;
        self.unfinished = false;
        self.pub_done = self.wk;
        self.completed_by_live += 1;
        self.quiet_off();
        if fs.gen % 2 != 0 || fs.gen == 0 {
            self.viol("C11", "not-even-nonzero-when-idle", format!("generation {} after a completed update (was {} before it)", fs.gen, self.gen_before_write));
        }
        if fs.gen == self.gen_before_write {
            self.viol("C11", "unchanged-after-update", format!("generation {} unchanged by a completed update", fs.gen));
        }
        self.gen_of_pub.insert(self.wk, fs.gen);
        self.completed_total += 1;
        self.completed_at.insert(self.wk, self.completed_total);
        let exp = rec_words(self.wk);
        // (a file shorter than 72 bytes with an intact header is taken over in place; the record then
        // lives beyond EOF in the shared page and is only visible through a mapping: see the fresh reader below)
        if fs.len >= 72 && fs.words != exp {
            self.viol("C17", "published-bytes", format!("file words {:?} after publishing record {}", fs.words, self.wk));
        }
        // C04d / C16: new clients can attach after the first publication
        if self.completed_by_live == 1 {
            let c = std::ffi::CString::new(self.path.to_string_lossy().as_bytes()).unwrap();
            match ShmReader::new(&c) {
                Ok(mut r) => match r.snapshot() {
                    Ok(c) => {
                        let w = words_of(c);
                        if w != exp {
                            self.viol("C16", "fresh-reader-after-first-publication", format!("fresh reader returned {:?}, published record {}", w, self.wk));
                        }
                    }
                    Err(e) => self.viol("C16", "fresh-reader-after-first-publication", format!("fresh reader snapshot failed: {}", shm_err(&e))),
                },
                Err(e) => self.viol("C04", "not-repaired", format!("new client cannot attach after start-up and first publication: {}", shm_err(&e))),
            }
        }
    }
    pub fn r_open(&mut self, r: &str, res: &str) {
        let e = self.readers.entry(r.to_string()).or_default();
        e.attached = res == "Ok";
    }
    pub fn r_call_start(&mut self, r: &str) {
        // "no update in flight" from the writer's side: nothing started and left unfinished. (With a
        // correct writer this coincides with an even, non-zero generation and version 1.)
        let q = !self.unfinished && !self.in_write && self.pub_done >= 1;
        let e = self.readers.entry(r.to_string()).or_default();
        e.in_call = true;
        e.quiet = q;
        e.calls += 1;
    }
    /// a snapshot() call returned
    pub fn r_call_done(&mut self, r: &str, what: &str, words: Option<[u64; WORDS]>, accesses: u64, first_loads: (Option<u64>, Option<u64>)) {
        // C18: a call that finds an update in flight (version 0, generation 0 or odd at its first loads)
        // answers from its previous snapshot at once instead of waiting
        let inflight_at_entry = first_loads.0 == Some(0) || matches!(first_loads.1, Some(g) if g == 0 || g % 2 == 1);
        if inflight_at_entry && self.sc {
            let prev = self.readers.get(r).map(|o| o.last_words).unwrap_or([0; WORDS]);
            if what != "ok" || words != Some(prev) || accesses > 2 {
                self.viol("C18", "waited-on-inflight-update", format!("reader {r}: update in flight at call entry (version {:?}, generation {:?}) but snapshot() did not answer from its previous snapshot at once: result {what} {:?} after {accesses} shared accesses", first_loads.0, first_loads.1, words));
            }
        }
        let w_model = self.bounds.len() as u64 - 1;
        let obs = self.readers.get(r).cloned().unwrap_or_default();
        if accesses > 2 + (WORDS as u64 + 2) * RETRY {
            self.viol("C18", "unbounded-work", format!("snapshot() performed {accesses} shared accesses"));
        }
        let _ = w_model;
        if let Some(w) = words {
            match decode_uniform(&w) {
                Err(m) => self.viol("C02", "torn-snapshot", format!("reader {r}: {m} (publications started so far: {})", self.wk)),
                Ok(k) => {
                    if k > self.wk {
                        self.viol("C02", "never-published", format!("reader {r} returned record {k} but only {} were started", self.wk));
                    }
                    if k < obs.last_k {
                        self.viol("C03", "went-back", format!("reader {r} returned record {k} after record {}", obs.last_k));
                    }
                    if self.sc && obs.quiet && k != self.pub_done {
                        let fs = file_state(&self.path);
                        // documented exception only: the reader slept through an exact (positive) multiple of 32767
                        // completed publications, so that its cached generation coincides with the live one
                        let slept = self.completed_at.get(&k).map(|c| self.completed_total - c);
                        let coincidence = k != 0
                            && self.gen_of_pub.get(&k).map(|g| *g == fs.gen).unwrap_or(false)
                            && matches!(slept, Some(n) if n > 0 && n % 32767 == 0);
                        if !coincidence {
                            self.viol("C03", "stale-when-idle", format!("reader {r}: no update in flight during the call, returned record {k}, latest completed publication is {} (generation {})", self.pub_done, fs.gen));
                        }
                    }
                    if let Some(e) = self.readers.get_mut(r) {
                        e.last_k = k;
                    }
                }
            }
        } else if what.starts_with("panic") {
            self.viol("C18", "panic-in-snapshot", format!("reader {r}: {what}"));
        }
        if let Some(e) = self.readers.get_mut(r) {
            e.in_call = false;
            if let Some(w) = words {
                e.last_words = w;
            }
        }
    }
}

// ------------------------------------------------------------------------------------------ helpers
pub fn scratch_path(tag: &str) -> PathBuf {
    let base = if Path::new("/dev/shm").is_dir() { "/dev/shm" } else { "/tmp" };
    let d = PathBuf::from(format!("{base}/cbverif_{}_{}", std::process::id(), tag));
    let _ = std::fs::remove_dir_all(&d);
    std::fs::create_dir_all(&d).unwrap();
    d.join("shm")
}

pub fn cleanup(path: &Path) {
    if let Some(d) = path.parent() {
        let _ = std::fs::remove_dir_all(d);
    }
}

pub fn viol_json(v: &[(String, String, String)]) -> Value {
    json!(v.iter().map(|(p, s, w)| json!({"property": p, "signature": s, "what": w})).collect::<Vec<_>>())
}
