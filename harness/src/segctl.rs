//! Controller over the segment actors: starts commands, releases parked accesses, names each
//! real step with the specification action it corresponds to, feeds the observational oracle,
//! and logs one ndjson event per step (binding T).

use crate::seg::*;
use serde_json::{json, Value};
use std::collections::BTreeMap;
use std::path::{Path, PathBuf};

#[derive(Debug, Clone, PartialEq)]
pub enum Phase {
    Idle,
    New,
    Write { odd_done: bool },
    Call { after_ver: bool, after_g1: bool },
    /// ShmReader::new in progress (it normally runs to completion without touching the mapping)
    Open,
}

pub struct Proc {
    pub actor: Actor,
    pub phase: Phase,
    pub is_writer: bool,
    pub attached: bool,
    pub alive: bool, // writer: holds a ShmWriter
    pub last_done: Option<(String, Option<[u64; WORDS]>, u64, u64)>,
    pub gen_loads_seen: u64,
    /// values returned by the first version load and the first generation load of the current call
    pub first_loads: (Option<u64>, Option<u64>),
}

pub struct Ctl {
    pub path: PathBuf,
    pub bounds: Vec<usize>,
    pub procs: BTreeMap<String, Proc>,
    pub oracle: Oracle,
    pub events: Vec<Value>,
    pub next_k: u64,
    pub log_events: bool,
    /// the backing file was truncated under an attached reader: touching the mapping would kill the process
    pub poisoned: bool,
}

/// What a step did, in specification terms.
#[derive(Debug, Clone)]
pub struct StepInfo {
    pub action: String,
    /// value loaded / stored / word index
    pub val: Option<u64>,
    /// Some(..) if the command returned during this step
    pub done: Option<(String, Option<[u64; WORDS]>)>,
    /// what the actor is parked at after the step
    pub pending: Option<String>,
    pub ord: String,
}

impl Ctl {
    pub fn new(path: &Path, w: usize, readers: &[String], wk: u64, pub_done: u64) -> Ctl {
        let bounds = chunk_bounds(w);
        let mut procs = BTreeMap::new();
        procs.insert(
            "W".to_string(),
            Proc {
                actor: spawn_actor("W", path, bounds.clone()),
                phase: Phase::Idle,
                is_writer: true,
                attached: false,
                alive: false,
                last_done: None,
                gen_loads_seen: 0,
                first_loads: (None, None),
            },
        );
        for r in readers {
            procs.insert(
                r.clone(),
                Proc {
                    actor: spawn_actor(r, path, bounds.clone()),
                    phase: Phase::Idle,
                    is_writer: false,
                    attached: false,
                    alive: false,
                    last_done: None,
                gen_loads_seen: 0,
                first_loads: (None, None),
                },
            );
        }
        Ctl {
            path: path.to_path_buf(),
            bounds: bounds.clone(),
            procs,
            oracle: Oracle::new(path, bounds, wk, pub_done),
            events: vec![],
            next_k: wk,
            log_events: false,
            poisoned: false,
        }
    }

    pub fn shutdown(&mut self) {
        for p in self.procs.values_mut() {
            p.actor.stop();
        }
    }

    fn name_action(phase: &Phase, desc: &str) -> String {
        match phase {
            Phase::New => match desc {
                "point:new.probe" => "WProbe",
                "point:wipe.create" => "WCreate",
                "point:wipe.magic0" => "WMagic0",
                "point:wipe.magic1" => "WMagic1",
                "point:wipe.size" => "WSize",
                "point:wipe.version" => "WVersion0",
                "point:wipe.generation" => "WGeneration0",
                "point:wipe.body" => "WBody",
                "point:wipe.sync" => "WSync",
                "point:new.mmap" => "WMmap",
                "store:ver" => "WVer1",
                _ => return format!("?{desc}"),
            }
            .to_string(),
            Phase::Write { odd_done } => {
                if desc == "load:gen" {
                    "WLoadGen".into()
                } else if desc == "store:gen" {
                    if *odd_done { "WEven".into() } else { "WOdd".into() }
                } else if desc == "fence" {
                    "WFence".into()
                } else if desc.starts_with("dw:") {
                    "WWord".into()
                } else {
                    format!("?{desc}")
                }
            }
            Phase::Call { after_ver, after_g1 } => {
                if desc == "load:ver" && !*after_ver {
                    "RVer".into()
                } else if desc == "load:gen" {
                    if *after_g1 { "RG2".into() } else { "RG1".into() }
                } else if desc.starts_with("dr:") {
                    "RWord".into()
                } else if desc == "fence" {
                    "RFence".into()
                } else {
                    format!("?{desc}")
                }
            }
            Phase::Idle | Phase::Open => format!("?{desc}"),
        }
    }

    fn log(&mut self, p: &str, a: &str, v: Option<u64>, extra: Value) {
        if !self.log_events {
            return;
        }
        let fs = file_state(&self.path);
        let mut e = json!({"n": self.events.len() + 1, "p": p, "a": a, "v": v.unwrap_or(0),
            "gen": fs.gen, "ver": fs.ver, "len": fs.len});
        if let Value::Object(m) = extra {
            for (k, x) in m {
                e[k] = x;
            }
        }
        self.events.push(e);
    }

    fn handle_msg(&mut self, name: &str, action: String, executed_desc: Option<String>, m: Msg) -> StepInfo {
        let is_writer = self.procs[name].is_writer;
        let phase = self.procs[name].phase.clone();
        // oracle bookkeeping for the access that was just executed
        if let Some(d) = &executed_desc {
            match &phase {
                Phase::New => self.oracle.w_new_step(d),
                Phase::Write { .. } => self.oracle.w_write_step(d),
                _ => (),
            }
        }
        // values of the first loads of a call (C18 in-flight-at-entry predicate)
        if let (Some(d), Phase::Call { after_ver, after_g1 }) = (&executed_desc, &phase) {
            let prev = match &m {
                Msg::Pending { prev, .. } => *prev,
                Msg::Done { prev, .. } => *prev,
            };
            let p = self.procs.get_mut(name).unwrap();
            if d == "load:ver" && !*after_ver {
                p.first_loads.0 = prev;
            } else if d == "load:gen" && !*after_g1 {
                p.first_loads.1 = prev;
            }
        }
        // phase progress
        if let Some(d) = &executed_desc {
            let p = self.procs.get_mut(name).unwrap();
            match (&mut p.phase, d.as_str()) {
                (Phase::Write { odd_done }, "store:gen") => *odd_done = true,
                (Phase::Call { after_ver, .. }, "load:ver") => *after_ver = true,
                (Phase::Call { after_g1, .. }, "load:gen") => *after_g1 = true,
                _ => (),
            }
        }
        match m {
            Msg::Pending { desc, ord, prev, gen_loads, .. } => {
                self.procs.get_mut(name).unwrap().gen_loads_seen = gen_loads;
                let mut val = prev;
                if action == "WWord" || action == "RWord" {
                    // word index (1-based chunk number) as the argument of the action
                    if let Some(d) = &executed_desc {
                        val = d.split(':').nth(1).and_then(|c| c.parse::<u64>().ok()).map(|c| c + 1);
                    }
                }
                let mut extra = json!({});
                if action == "RWord" {
                    extra = json!({"lv": prev.unwrap_or(0) & 0xffff_ffff});
                }
                if executed_desc.is_some() {
                    self.log(name, &action, val, extra);
                }
                StepInfo { action, val, done: None, pending: Some(desc), ord }
            }
            Msg::Done { what, words, prev, accesses, gen_loads } => {
                let mut val = prev;
                if action == "WWord" || action == "RWord" {
                    if let Some(d) = &executed_desc {
                        val = d.split(':').nth(1).and_then(|c| c.parse::<u64>().ok()).map(|c| c + 1);
                    }
                }
                if executed_desc.is_some() {
                    let extra = if action == "RWord" { json!({"lv": prev.unwrap_or(0) & 0xffff_ffff}) } else { json!({}) };
                    self.log(name, &action, val, extra);
                }
                // command finished
                match &phase {
                    Phase::New => {
                        if what == "ok" {
                            self.oracle.w_new_done();
                            self.procs.get_mut(name).unwrap().alive = true;
                        } else {
                            self.oracle.w_died();
                            self.procs.get_mut(name).unwrap().alive = false;
                            if what.starts_with("panic") || what.starts_with("ioerr") {
                                self.oracle.violations.push(("C16".into(), "new-failed".into(), format!("ShmWriter::new failed: {what}")));
                            }
                        }
                    }
                    Phase::Write { .. } => {
                        if what == "ok" {
                            self.oracle.w_write_done();
                        } else {
                            self.oracle.w_died();
                            self.procs.get_mut(name).unwrap().alive = false;
                            if what.starts_with("panic") {
                                self.oracle.violations.push(("C04".into(), "write-panicked".into(), format!("ShmWrite::write panicked: {what}")));
                            }
                        }
                    }
                    Phase::Call { .. } => {
                        let fl = self.procs[name].first_loads;
                        self.oracle.r_call_done(name, &what, words, accesses, fl);
                        let kind = if what == "ok" { "ok" } else { "error" };
                        // first word of every chunk, as logged for RWord
                        let wv: Vec<u64> = words.map(|w| self.bounds[..self.bounds.len() - 1].iter().map(|lo| w[*lo] & 0xffff_ffff).collect()).unwrap_or_default();
                        self.log(name, "RDone", None, json!({"kind": kind, "words": wv, "acc": accesses, "gl": gen_loads}));
                    }
                    Phase::Open => {
                        let norm = normalize_open(&what);
                        self.oracle.r_open(name, &norm);
                        self.procs.get_mut(name).unwrap().attached = norm == "Ok";
                        self.log(name, "ROpen", None, json!({"res": norm}));
                    }
                    Phase::Idle => (),
                }
                let _ = is_writer;
                let p = self.procs.get_mut(name).unwrap();
                p.phase = Phase::Idle;
                p.last_done = Some((what.clone(), words, accesses, gen_loads));
                StepInfo { action, val, done: Some((what, words)), pending: None, ord: "-".into() }
            }
        }
    }

    /// Start a command on an idle process and run it to its first parked access (or return).
    pub fn start(&mut self, name: &str, cmd: Cmd) -> Result<StepInfo, String> {
        let action;
        {
            let p = self.procs.get_mut(name).unwrap();
            assert!(p.phase == Phase::Idle, "{name} not idle");
            match &cmd {
                Cmd::WNew => {
                    p.phase = Phase::New;
                    p.alive = false;
                    action = "WRestart".to_string();
                }
                Cmd::WWrite(_) => {
                    p.phase = Phase::Write { odd_done: false };
                    action = "WStartWrite".to_string();
                }
                Cmd::WDrop => action = "WCrash".to_string(),
                Cmd::ROpen => {
                    p.phase = Phase::Open;
                    action = "ROpen".to_string();
                }
                Cmd::RCall => {
                    p.phase = Phase::Call { after_ver: false, after_g1: false };
                    p.first_loads = (None, None);
                    action = "RCall".to_string();
                }
                Cmd::RClose => action = "RClose".to_string(),
                Cmd::Exit => action = "Exit".to_string(),
            }
        }
        match &cmd {
            Cmd::WNew => self.oracle.w_new_start(),
            Cmd::WWrite(k) => {
                self.next_k = *k;
                self.oracle.w_write_start(*k)
            }
            Cmd::WDrop => {
                self.oracle.w_died();
                self.procs.get_mut(name).unwrap().alive = false;
            }
            Cmd::RCall => self.oracle.r_call_start(name),
            _ => (),
        }
        let m = self.procs.get_mut(name).unwrap().actor.start(cmd.clone())?;
        let mut info = self.handle_msg(name, action.clone(), None, m);
        match cmd {
            Cmd::ROpen => {
                if let Some(d) = info.done.as_ref() {
                    info.done = Some((normalize_open(&d.0), None));
                }
            }
            Cmd::RCall => self.log(name, "RCall", None, json!({})),
            Cmd::WNew => self.log(name, "WRestart", None, json!({})),
            Cmd::WDrop => self.log(name, "WCrash", None, json!({})),
            Cmd::RClose => {
                self.procs.get_mut(name).unwrap().attached = false;
                if let Some(o) = self.oracle.readers.get_mut(name) {
                    o.attached = false;
                }
            }
            _ => (),
        }
        Ok(info)
    }

    /// Release the parked access of a process with the given directive.
    pub fn release(&mut self, name: &str, d: Directive) -> Result<StepInfo, String> {
        let (desc, _ord) = self.procs[name].actor.pending.clone().ok_or(format!("{name} has nothing pending"))?;
        let phase = self.procs[name].phase.clone();
        let crash = matches!(d, Directive::Crash);
        if !crash && desc == "point:wipe.create" && self.procs.values().any(|p| p.attached || p.phase == Phase::Open) && !self.oracle.external_corruption {
            // executing File::create now would truncate the file under an attached reader (SIGBUS on its
            // next access): record it and stop this run instead
            self.oracle.violations.push(("C04".into(), "wipe-under-attached-reader".into(), "ShmWriter::new is about to truncate the segment while a reader is attached".into()));
            if self.oracle.start_usable {
                let g = self.oracle.pre_new.as_ref().map(|f| f.gen).unwrap_or(0);
                self.oracle.violations.push(("C04".into(), "usable-segment-wiped".into(), format!("ShmWriter::new is about to wipe a usable segment (generation {g})")));
                self.oracle.violations.push(("C11".into(), "generation-back-to-zero".into(), format!("a restart is about to re-initialise a published segment: generation {g} would go back to 0")));
            }
            self.poisoned = true;
            return Err("POISONED".into());
        }
        let action = if crash { "WCrash".to_string() } else { Self::name_action(&phase, &desc) };
        let m = self.procs.get_mut(name).unwrap().actor.release(d)?;
        if crash {
            // the access was not executed
            let info = self.handle_msg(name, action, None, m);
            self.log(name, "WCrash", None, json!({}));
            return Ok(info);
        }
        Ok(self.handle_msg(name, action, Some(desc), m))
    }

    /// Let a reader parked at the start of a retry iteration run `iters` iterations without parking
    /// (the writer is not scheduled meanwhile); logged as one RSpin(n) event.
    pub fn release_spin(&mut self, name: &str, iters: u64) -> Result<StepInfo, String> {
        let per_iter = (self.bounds.len() - 1) as u64 + 1;
        let before = self.procs[name].gen_loads_seen;
        assert_eq!(self.pending_of(name).as_deref(), Some("dr:0"));
        let m = self.procs.get_mut(name).unwrap().actor.release(Directive::FreeRun(per_iter * iters - 1))?;
        let after = match &m {
            Msg::Pending { gen_loads, .. } => *gen_loads,
            Msg::Done { gen_loads, .. } => *gen_loads,
        };
        let n = after - before;
        self.log(name, "RSpin", Some(n), json!({}));
        if after > RETRY + 2 {
            // more generation loads than the retry budget allows: the call does not terminate on its own
            self.oracle.violations.push(("C18".into(), "unbounded-work".into(), format!("reader {name}: snapshot() performed {after} generation loads in one call (retry budget {RETRY}) and is still running with the writer stalled")));
        }
        Ok(self.handle_msg(name, "RSpin".into(), None, m))
    }

    pub fn pending_of(&self, name: &str) -> Option<String> {
        self.procs[name].actor.pending.as_ref().map(|p| p.0.clone())
    }
}

pub fn normalize_open(res: &str) -> String {
    if res.starts_with("Syscall:2:") {
        "ENOENT".into()
    } else {
        res.to_string()
    }
}
