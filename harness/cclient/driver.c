/* C driver for the conformance checks of the C client library (libclockbound).
 * Built against clock-bound-ffi/include/clockbound.h and linked with the freshly built static
 * library. Line protocol on stdin/stdout:
 *   layout                      -> sizes, offsets and enum values of the public header
 *   open <path>                 -> "ok" | "err <kind> <errno> <detail>"
 *   now <rs> <rns> <ms> <mns>   -> "ok <es> <ens> <ls> <lns> <status> reads <ids...>" | "err <kind> <errno> <detail>"
 *   close                       -> "ok"
 *   quit
 */
#include <stdio.h>
#include <stdlib.h>
#include <string.h>
#include <stddef.h>
#include <stdint.h>
#include "clockbound.h"

/* verification-only entry points exported by the instrumented library */
extern void clockbound_verif_set_clock(int64_t real_sec, int64_t real_nsec, int64_t mono_sec, int64_t mono_nsec);
extern void clockbound_verif_clear_clock(void);
extern size_t clockbound_verif_clock_reads(int *out, size_t cap);

static void print_err(const clockbound_err *e) {
    printf("err %d %d %s\n", (int)e->kind, e->sys_errno, e->detail ? e->detail : "-");
}

int main(void) {
    char line[4096];
    clockbound_ctx *ctx = NULL;
    setvbuf(stdout, NULL, _IOLBF, 0);
    while (fgets(line, sizeof line, stdin)) {
        line[strcspn(line, "\n")] = 0;
        if (!strcmp(line, "quit")) break;
        if (!strcmp(line, "layout")) {
            printf("layout sizeof_err %zu off_kind %zu off_errno %zu off_detail %zu sizeof_now %zu off_earliest %zu off_latest %zu off_status %zu "
                   "sizeof_timespec %zu ERR_NONE %d ERR_SYSCALL %d ERR_NOTINIT %d ERR_MALFORMED %d ERR_CAUSALITY %d "
                   "STA_UNKNOWN %d STA_SYNCHRONIZED %d STA_FREE_RUNNING %d default_path %s\n",
                   sizeof(clockbound_err), offsetof(clockbound_err, kind), offsetof(clockbound_err, sys_errno), offsetof(clockbound_err, detail),
                   sizeof(clockbound_now_result), offsetof(clockbound_now_result, earliest), offsetof(clockbound_now_result, latest),
                   offsetof(clockbound_now_result, clock_status), sizeof(struct timespec),
                   CLOCKBOUND_ERR_NONE, CLOCKBOUND_ERR_SYSCALL, CLOCKBOUND_ERR_SEGMENT_NOT_INITIALIZED, CLOCKBOUND_ERR_SEGMENT_MALFORMED,
                   CLOCKBOUND_ERR_CAUSALITY_BREACH, CLOCKBOUND_STA_UNKNOWN, CLOCKBOUND_STA_SYNCHRONIZED, CLOCKBOUND_STA_FREE_RUNNING,
                   CLOCKBOUND_SHM_DEFAULT_PATH);
            continue;
        }
        if (!strncmp(line, "open ", 5)) {
            /* the error struct is reused across calls, as a caller's would be: stale fields must not leak */
            static clockbound_err err;
            if (ctx) { clockbound_close(ctx); ctx = NULL; }
            ctx = clockbound_open(line + 5, &err);
            if (ctx) printf("ok\n"); else print_err(&err);
            continue;
        }
        if (!strcmp(line, "close")) {
            if (ctx) { clockbound_close(ctx); ctx = NULL; }
            printf("ok\n");
            continue;
        }
        if (!strncmp(line, "now ", 4)) {
            long long rs, rns, ms, mns;
            if (sscanf(line + 4, "%lld %lld %lld %lld", &rs, &rns, &ms, &mns) != 4 || !ctx) { printf("bad\n"); continue; }
            clockbound_verif_set_clock(rs, rns, ms, mns);
            clockbound_now_result res;
            memset(&res, 0, sizeof res);
            const clockbound_err *e = clockbound_now(ctx, &res);
            int reads[8];
            size_t n = clockbound_verif_clock_reads(reads, 8);
            clockbound_verif_clear_clock();
            if (e) { print_err(e); continue; }
            printf("ok %lld %lld %lld %lld %d reads", (long long)res.earliest.tv_sec, (long long)res.earliest.tv_nsec,
                   (long long)res.latest.tv_sec, (long long)res.latest.tv_nsec, (int)res.clock_status);
            for (size_t i = 0; i < n && i < 8; i++) printf(" %d", reads[i]);
            printf("\n");
            continue;
        }
        printf("bad\n");
    }
    return 0;
}
