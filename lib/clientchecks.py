"""Checks decided on the ClientFn block: C05 C06 C14 (and the client halves of C17 / C12).

  MC  Apalache decides the properties of ClientInt for ALL integers in the stated ranges (symbolic).
  R   the case grid + seeded random vectors are evaluated by the real ClockBoundClient::now() (Rust) and
      clockbound_now() (C, linked against the freshly built libclockbound) under a virtual clock on a real
      segment written by the real ShmWriter; TLC evaluates ClientFn with exact limb arithmetic (ClientBig)
      on the same inputs and accepts or rejects every recorded result.
"""
import os, json, re, subprocess, time
import cb
from cb import ToolError, Report, log
from checks import register, Drift

APA_INVS = {
    "C05": ["C05Centred", "C05Law", "C05Monotone"],
    "C06": ["C06Status", "C06Void"],
    "C14": ["C14Errors", "C14Range"],
}


def apalache(rep, invs, timeout=400):
    """Run apalache-mc check --length=0 --inv=<inv> on ClientInt for each invariant."""
    out = cb.workdir("apa_" + rep.pid)
    done = 0
    for inv in invs:
        t0 = time.time()
        p = cb.run(["timeout", str(timeout), "apalache-mc", "check", "--length=0", f"--inv={inv}", f"--out-dir={out}",
                    f"--run-dir={out}/run", os.path.join(cb.SPEC, "ClientInt.tla")], timeout=timeout + 30)
        txt = p.stdout + p.stderr
        if "The outcome is: NoError" in txt:
            done += 1
            rep.notes.append(f"Apalache: {inv} holds for all integers in range (symbolic, {time.time() - t0:.1f}s)")
        elif "The outcome is: Error" in txt or "Checker has found an error" in txt and "outcome is: Error" in txt:
            raise ToolError(f"ClientInt violates {inv}: the specification itself is inconsistent with the property:\n{txt[-1500:]}")
        else:
            raise ToolError(f"apalache failed on {inv}: {txt[-1500:]}")
    import shutil
    shutil.rmtree(out, ignore_errors=True)
    rep.extra["symbolic_obligations"] = rep.extra.get("symbolic_obligations", 0) + done
    return done


def build_client():
    d = cb.build_harness()
    lk = cb.cargo_lock()
    try:
        p = cb.run([os.path.join(cb.ROOT, "bin", "build_cdriver")], timeout=900)
        if p.returncode != 0:
            raise ToolError("building libclockbound / the C driver failed:\n" + (p.stdout + p.stderr)[-3000:])
    finally:
        lk.close()
    return os.path.join(d, "client"), os.path.join(cb.HARNESS, "target", "ffi", "cdriver")


def run_vectors(rep, seed, n):
    """Returns (summary json, dict of bad-id sets from the TLC oracle, vec file)."""
    client, cdriver = build_client()
    vec = os.path.join(cb.WORK, f"vec_{rep.pid}.ndjson")
    p = cb.run([client, "vectors", "--seed", str(seed), "--n", str(n), "--out", vec, "--cdriver", cdriver], timeout=1800)
    if p.returncode != 0:
        raise ToolError(f"client vectors failed: {p.stderr[-2000:]}")
    summ = json.loads(p.stdout.strip().splitlines()[-1])
    r = cb.tlc("ClientBig", "ClientBig.cfg", "vec_" + rep.pid, workers=1, timeout=1800, env={"VEC": vec}, java_opts=["-Xss1g"])
    bad = {}
    for k in ("BADKIND", "BADSTATUS", "BADINTERVAL"):
        m = re.search(r'<<\s*"%s",\s*\{([^}]*)\}\s*>>' % k, r.out.replace("\n", " "))
        if not m:
            raise ToolError("TLC oracle output not understood: " + r.out[-1500:])
        bad[k] = [int(x) for x in m.group(1).replace(" ", "").split(",") if x]
    m = re.search(r'<<\s*"CHECKED",\s*(\d+)\s*>>', r.out)
    checked = int(m.group(1)) if m else 0
    if checked != summ["vectors"]:
        raise ToolError(f"TLC oracle evaluated {checked} of {summ['vectors']} vectors")
    rep.add_tlc(r, f"TLC oracle (ClientBig, exact limb arithmetic) on {checked} recorded calls")
    rep.evaluations += summ["vectors"]
    rep.traces += summ["vectors"] - len(set(sum(bad.values(), [])))
    rep.notes.append(f"vectors: {summ['vectors']} ({summ['grid']} grid + random, seed {seed}), {summ['classes']} distinct grid classes, result kinds {summ['kinds']}, C client on the same segment: {summ['c_client']}")
    for s in re.findall(r'<< "SAMPLE",\s*(\d+),\s*(\[.*?\]) >>', r.out, re.S)[:3]:
        rep.sample({"vector": int(s[0]), "spec_result": " ".join(s[1].split())})
    return summ, bad, vec


def vector_by_id(vec, i):
    with open(vec) as f:
        for line in f:
            v = json.loads(line)
            if v["id"] == i:
                return {"input": v["human"], "got": v["got"]}
    return {"id": i}


def client_check(pid, tier, seed, badkey, extra_keys, what):
    rep = Report(pid, tier, seed, "model_checking")
    rep.assumptions = ["A3: the code computes the growth term in f64, the specification exactly; accepted |g*1e9 - drift*age| <= 1e9 + drift*age/1e15 + 1 (stated in ClientBig.tla)",
                       "physically meaningful range: 0 <= timestamps <= 2^31 s, 0 <= bound < 2^60 ns (ClientInt.Init)",
                       "virtual clock through the cfg-gated override in clock_gettime_safe; C client = libclockbound.a built from the working tree with the same flag"]
    rep.rule = "case grid (stored status x position of mono relative to as_of/grace/void x drift class x void kind) + seeded random magnitudes; distinct = grid classes hit"
    apalache(rep, APA_INVS[pid])
    n = 3000 if tier == "quick" else 150000
    summ, bad, vec = run_vectors(rep, seed, n)
    for i in range(summ["classes"]):
        rep.distinct.add(i)
    for i in bad[badkey][:5]:
        rep.violation(badkey.lower(), f"{what}: real now() result rejected by the specification (TLC/ClientBig)", {"kind": "vector", "vector": vector_by_id(vec, i)})
    for k, sig, msg in extra_keys:
        for x in summ[k][:5]:
            rep.violation(sig, msg, {"kind": "vector", "case": x})
    os.remove(vec)
    return rep.finish()


@register("C05")
def c05(tier, seed):
    return client_check("C05", tier, seed, "BADINTERVAL",
                        [("mono_bad", "half-width-shrinks", "half-width shrank as the record got older")],
                        "interval not centred / not bound + drift*age")


@register("C06")
def c06(tier, seed):
    return client_check("C06", tier, seed, "BADSTATUS", [], "status stronger/weaker than the record's age justifies")


@register("C14")
def c14(tier, seed):
    return client_check("C14", tier, seed, "BADKIND",
                        [("panics", "panic-in-now", "now() panicked inside the physically meaningful range"),
                         ("c_mismatch", "c-client-error-differs", "the C client reports a different outcome (error kind / errno / detail) than the Rust client for the same call")],
                        "wrong error kind / unexpected failure")
