"""C16 (segment files validated on open, repaired by the daemon) and C17 (layout and C ABI)."""
import os, json, re
import cb
from cb import ToolError, Report, log
from checks import register, Drift
import segchecks, clientchecks


def bad_ids(out, key):
    m = re.search(r'<<\s*"%s",\s*\{([^}]*)\}\s*>>' % key, out.replace("\n", " "))
    if not m:
        raise ToolError(f"TLC oracle output not understood ({key}): " + out[-1500:])
    return [int(x) for x in m.group(1).replace(" ", "").split(",") if x]


def checked(out):
    m = re.search(r'<<\s*"CHECKED",\s*(\d+)\s*>>', out)
    return int(m.group(1)) if m else 0


def line_by_id(path, i):
    with open(path) as f:
        for line in f:
            v = json.loads(line)
            if v["id"] == i:
                return v
    return {"id": i}


def files_bin():
    client, cdriver = clientchecks.build_client()
    return os.path.join(os.path.dirname(client), "files"), cdriver


@register("C16")
def c16(tier, seed):
    rep = Report("C16", tier, seed, "model_checking")
    rep.assumptions = ["abstraction of a concrete file = (kind, length, magic ok, declared size, version, generation) decoded at the offsets of Layout.tla; declared sizes above 10^6 are clamped (the only thresholds are 16 and 72)",
                       "a file shorter than its declared size but with an intact header is accepted by the code and by the specification (observed behaviour, see DESIGN.md C16)",
                       "a directory at the segment path cannot be repaired (ShmWriter::new fails); only its open outcome is checked"]
    rep.rule = "grid over (length x version x generation x declared size x magic) + every single-bit flip of a valid header + every truncation + seeded random byte strings; distinct by concrete content"
    wprog, rprog, xdrift, raw = segchecks.extract_programs()
    # MC: Repair / InPlace / NoReaderDuringWipe from every abstract start file, one crash anywhere in start-up
    extra = ("Lens == {0, 9, 16, 40, 72}\nSizes == {0, 16, 40, 72}\n"
             "Mk(l, m, s, v, g) == LET ok == OpenOutcomeOf(TRUE, l, m, s, v, g) = \"Ok\" /\\ l = 72 IN\n"
             "   IF ok /\\ g % 2 = 0 THEN File(TRUE, l, m, s, v, g, Full(1), 1, 1)\n"
             "   ELSE IF ok THEN File(TRUE, l, m, s, v, g, Mixed(2, 1), 1, 2)\n"
             "   ELSE File(TRUE, l, m, s, v, g, Empty, 0, 0)\n"
             "SFgrid == {SFmissing} \\cup { Mk(l, m, s, v, g) : l \\in Lens, m \\in BOOLEAN, s \\in Sizes, v \\in {0, 1, 2}, g \\in {0, 1, 4} }\n")
    c = dict(sc=True, retry=2, readers="R1", maxpub=3, maxcrash=1 if tier == "quick" else 2, maxinc=2 if tier == "quick" else 3, maxcalls=1, files="SFgrid")
    r = segchecks.mc(rep, "c16_grid", c, wprog, rprog, ["TypeOK", "Repair", "InPlace", "NoReaderDuringWipe", "NoTorn", "GenProtocol"], workers=10, timeout=2400, extra=extra)
    if r.violated:
        raise ToolError(f"ShmSeg violates {r.violated} from the start-file grid")
    # R: open outcomes of concrete files, three ways, against the specification's table
    fbin, cdriver = files_bin()
    n = 512 if tier == "quick" else 20000
    out = os.path.join(cb.WORK, "files_C16.ndjson")
    prog = os.path.join(cb.WORK, "files_C16.progress")
    p = cb.run([fbin, "open", "--seed", str(seed), "--n", str(n), "--out", out, "--cdriver", cdriver, "--progress", prog], timeout=1800)
    if p.returncode < 0:
        cur = open(prog).read() if os.path.exists(prog) else "?"
        rep.violation("crash-on-open", f"opening a segment file killed the process with signal {-p.returncode}: {cur}", {"kind": "files-open", "file": cur})
        return rep.finish()
    if p.returncode != 0:
        raise ToolError("files open failed: " + p.stderr[-2000:])
    summ = json.loads(p.stdout.strip().splitlines()[-1])
    r = cb.tlc("OpenTable", "OpenTable.cfg", "open_C16", workers=1, timeout=900, env={"FILES": out}, java_opts=["-Xss1g"])
    if checked(r.out) != summ["files"]:
        raise ToolError(f"TLC evaluated {checked(r.out)} of {summ['files']} files")
    rep.add_tlc(r, f"TLC OpenTable oracle on {summ['files']} concrete files")
    rep.evaluations += summ["files"]
    rep.notes.append(f"open: {summ['files']} files, outcomes {summ['outcomes']}, C client: {summ['c_client']}")
    bad = bad_ids(r.out, "BADOPEN")
    for i in bad[:5]:
        v = line_by_id(out, i)
        rep.violation("open-outcome", f"opening '{v.get('desc')}' returned {v.get('got')}, which is not the documented outcome for (len {v.get('len')}, magic ok {v.get('mok')}, version {v.get('ver')}, generation {v.get('gen')}, declared size {v.get('size')})", {"kind": "files-open", "file": v})
    for d in summ["disagree"][:5]:
        rep.violation("open-clients-disagree", f"ShmReader::new, ClockBoundClient::new_with_path and clockbound_open disagree on '{d['file']}'", {"kind": "files-open", "case": d})
    for d in summ["c_died"][:3]:
        rep.violation("crash-on-open", f"clockbound_open crashed on '{d['file']}'", {"kind": "files-open", "case": d})
    rep.traces += summ["files"] - len(bad)
    # the same under an address-space limit: mapping a declared 4 GiB segment fails with ENOMEM, cleanly
    out2 = os.path.join(cb.WORK, "files_C16_rl.ndjson")
    p = cb.run([fbin, "open", "--seed", str(seed), "--n", "16", "--out", out2, "--rlimit"], timeout=600)
    if p.returncode != 0:
        rep.violation("crash-on-open", f"opening a segment file declaring a huge size under an address-space limit killed the process (rc {p.returncode})", {"kind": "files-open-rlimit"})
    else:
        s2 = json.loads(p.stdout.strip().splitlines()[-1])
        r2 = cb.tlc("OpenTable", "OpenTable.cfg", "open_C16_rl", workers=1, timeout=300, env={"FILES": out2})
        if checked(r2.out) != s2["files"]:
            raise ToolError(f"TLC evaluated {checked(r2.out)} of {s2['files']} files (rlimit)")
        rep.evaluations += s2["files"]
        rep.notes.append(f"open under RLIMIT_AS = 1 GiB: {s2['files']} files declaring >= 2 GiB, outcomes {s2['outcomes']}")
        for i in bad_ids(r2.out, "BADOPEN")[:3]:
            v = line_by_id(out2, i)
            rep.violation("open-outcome-mmap-failure", f"opening '{v.get('desc')}' with mmap failing returned {v.get('got')}, documented outcome is the failing system call (ENOMEM)", {"kind": "files-open", "file": v})
        os.remove(out2)
    with open(out) as f:
        for i, line in enumerate(f):
            v = json.loads(line)
            rep.distinct.add((v["kind"], v["len"], v["mok"], v["size"], v["ver"], v["gen"]))
            if i in (2, 700, 3900):
                rep.sample({k: v[k] for k in ("desc", "len", "mok", "size", "ver", "gen", "got")})
    os.remove(out)
    # R: start-up + first publication over each file
    p = cb.run([fbin, "repair", "--seed", str(seed), "--n", str(128 if tier == "quick" else 4000)], timeout=1800)
    if p.returncode < 0:
        rep.violation("crash-on-repair", f"ShmWriter::new/write over a pre-existing file killed the process with signal {-p.returncode}", {"kind": "files-repair"})
        return rep.finish()
    if p.returncode != 0:
        raise ToolError("files repair failed: " + p.stderr[-2000:])
    res = json.loads(p.stdout.strip().splitlines()[-1])
    for e in res["errors"]:
        raise ToolError(f"files repair: {e}")
    rep.evaluations += res["files"]
    rep.traces += res["files"] - len(res["violations"])
    rep.notes.append(f"repair: ShmWriter::new + write + fresh reader over {res['files']} files ({res['recreated']} re-created, {res['taken_over_in_place']} taken over in place)")
    for v in res["violations"][:5]:
        for x in v["violations"]:
            if x["property"] in ("C16", "C04", "C17"):
                rep.violation(x["signature"], f"start-up over '{v['file']}': {x['what']}", {"kind": "files-repair", "case": v})
    rc = rep.finish()
    if rc == 0 and xdrift:
        raise Drift(xdrift)
    return rc



DOC_TYPES = {"u64": 8, "i64": 8, "u32": 4, "i32": 4, "u16": 2, "i16": 2, "u8": 1, "i8": 1}


def protocol_md_table():
    """The field table as docs/PROTOCOL.md states it today: `**Name**: (type[, type])` entries of the shared-memory
    section, packed in order. Returns [(name, offset, width)], the status value list and the magic bytes."""
    txt = open("/repo/docs/PROTOCOL.md").read()
    sec = txt.split("# ClockBound Unix Datagram Socket Protocol")[0]
    sec = sec[sec.index("## Description"):]
    table, off = [], 0
    for m in re.finditer(r"^\*\*([^*]+)\*\*: \(([^)]*)\)", sec, re.M):
        for j, t in enumerate(x.strip() for x in m.group(2).split(",")):
            if t not in DOC_TYPES:
                raise ToolError(f"docs/PROTOCOL.md: unknown type {t} for {m.group(1)}")
            table.append((m.group(1).strip() + (f"#{j}" if "," in m.group(2) else ""), off, DOC_TYPES[t]))
            off += DOC_TYPES[t]
    statuses = {int(a): b for a, b in re.findall(r"^(\d+) - (\w+):", sec, re.M)}
    magic = [int(x, 16) for x in re.findall(r"0x([0-9A-Fa-f]{2})", sec.split("**Segment Size**")[0])]
    return table, statuses, magic


# Layout.tla's table in the document's terms (the magic number is one u64 in the document, two u32 stores in the code)
LAYOUT_AS_DOC = [("Magic Number", 0, 8), ("Segment Size", 8, 4), ("Version", 12, 2), ("Generation", 14, 2),
                 ("As-Of Timestamp#0", 16, 8), ("As-Of Timestamp#1", 24, 8), ("Void-After Timestamp#0", 32, 8), ("Void-After Timestamp#1", 40, 8),
                 ("Bound", 48, 8), ("Max Drift", 56, 4), ("Reserved", 60, 4), ("Clock Status", 64, 4)]
LAYOUT_STATUSES = {0: "Unknown", 1: "Synchronized", 2: "FreeRunning"}
LAYOUT_MAGIC = [0x41, 0x4D, 0x5A, 0x4E, 0x43, 0x42, 0x02, 0x00]


@register("C17")
def c17(tier, seed):
    rep = Report("C17", tier, seed, "exploration")
    rep.assumptions = ["Layout.tla is a transcription of docs/PROTOCOL.md (13 fields; adjacency checked by TLC; the document is re-parsed on every run and compared with the table)",
                       "ABI: the C driver is compiled against clock-bound-ffi/include/clockbound.h and linked with libclockbound.a built from the working tree; struct layout drift shows up as differing results",
                       "native endianness = little endian on the build host"]
    rep.rule = "segment images with every field at extremes and random values, written by the real ShmWriter and by the real daemon Updater path, decoded by TLC with the PROTOCOL.md table; plus the C05/C06/C14 vector set and the C16 file set through the C and the Rust client; distinct by content"
    fbin, cdriver = files_bin()
    img = os.path.join(cb.WORK, "img_C17.ndjson")
    p = cb.run([fbin, "layout", "--seed", str(seed), "--n", str(300 if tier == "quick" else 20000), "--out", img], timeout=900)
    if p.returncode != 0:
        raise ToolError("files layout failed: " + p.stderr[-2000:])
    n = json.loads(p.stdout.strip().splitlines()[-1])["images"]
    r = cb.tlc("Layout", "Layout.cfg", "layout_C17", workers=1, timeout=1800, env={"IMG": img}, java_opts=["-Xss1g"])
    if checked(r.out) != n:
        raise ToolError(f"TLC decoded {checked(r.out)} of {n} images")
    rep.notes.append(f"layout: {n} segment images decoded by TLC with the PROTOCOL.md table ({r.wall:.1f}s)")
    rep.evaluations += n
    for i in bad_ids(r.out, "BADIMG")[:5]:
        v = line_by_id(img, i)
        rep.violation("layout", f"bytes written by {v.get('via')} do not decode to the published values with the offsets of docs/PROTOCOL.md", {"kind": "layout", "image": v})
    # the description itself: docs/PROTOCOL.md must still say what Layout.tla (and, by the decoding above, the code) says
    doc_table, doc_status, doc_magic = protocol_md_table()
    rep.evaluations += 1
    rep.notes.append(f"docs/PROTOCOL.md parsed: {len(doc_table)} fields ending at byte {doc_table[-1][1] + doc_table[-1][2] if doc_table else 0}, statuses {doc_status}")
    if (doc_table, doc_status, doc_magic) != (LAYOUT_AS_DOC, LAYOUT_STATUSES, LAYOUT_MAGIC) and not rep.violations:
        diff = [(a, b) for a, b in zip(doc_table + [None] * 20, LAYOUT_AS_DOC + [None] * 20) if a != b][:3]
        rep.violation("description-differs", f"docs/PROTOCOL.md no longer describes the layout the code writes (the images decode with the previous table): first differences (document, code) {diff}; statuses {doc_status}; magic {doc_magic}", {"kind": "doc", "document": doc_table, "code": LAYOUT_AS_DOC, "statuses": doc_status, "magic": doc_magic})
    m = re.search(r'<< "SAMPLE",\s*(\d+),\s*(\[.*?\]) >>', r.out, re.S)
    if m:
        rep.sample({"image": int(m.group(1)), "decoded": " ".join(m.group(2).split())})
    with open(img) as f:
        for line in f:
            rep.distinct.add(hash(line))
    os.remove(img)
    # C vs Rust on the vector set
    client = os.path.join(os.path.dirname(fbin), "client")
    vec = os.path.join(cb.WORK, "vec_C17.ndjson")
    p = cb.run([client, "vectors", "--seed", str(seed), "--n", str(3000 if tier == "quick" else 200000), "--out", vec, "--cdriver", cdriver], timeout=1800)
    if p.returncode != 0:
        raise ToolError("client vectors failed: " + p.stderr[-2000:])
    summ = json.loads(p.stdout.strip().splitlines()[-1])
    os.remove(vec)
    rep.evaluations += summ["vectors"]
    rep.notes.append(f"C vs Rust client: {summ['vectors']} calls on the same segment at the same virtual instant, kinds {summ['kinds']}; header as the C compiler sees it: {summ['layout']}")
    rep.sample({"clockbound.h as compiled": summ["layout"]})
    for x in summ["c_mismatch"][:5]:
        rep.violation("c-vs-rust-now", "clockbound_now() and ClockBoundClient::now() differ on the same segment at the same instant", {"kind": "vector", "case": x})
    # C vs Rust on the file set
    out = os.path.join(cb.WORK, "files_C17.ndjson")
    p = cb.run([fbin, "open", "--seed", str(seed), "--n", "256", "--out", out, "--cdriver", cdriver], timeout=900)
    if p.returncode != 0:
        raise ToolError(f"files open failed rc={p.returncode}: " + p.stderr[-2000:])
    fs = json.loads(p.stdout.strip().splitlines()[-1])
    os.remove(out)
    rep.evaluations += fs["files"]
    rep.notes.append(f"C vs Rust open: {fs['files']} files, outcomes {fs['outcomes']}")
    for d in fs["disagree"][:5]:
        rep.violation("c-vs-rust-open", f"clockbound_open and the Rust clients disagree on '{d['file']}'", {"kind": "files-open", "case": d})
    for d in fs["c_died"][:3]:
        rep.violation("c-crash-on-open", f"clockbound_open crashed on '{d['file']}'", {"kind": "files-open", "case": d})
    # total size: a file the daemon had to re-create is exactly the documented 72 bytes
    p = cb.run([fbin, "repair", "--seed", str(seed), "--n", "64"], timeout=900)
    if p.returncode == 0:
        res = json.loads(p.stdout.strip().splitlines()[-1])
        rep.evaluations += res["files"]
        rep.notes.append(f"re-created files: {res['recreated']} of {res['files']} start files re-created by ShmWriter::new, each checked against the documented layout")
        for v in res["violations"][:5]:
            for x in v["violations"]:
                if x["signature"] in ("recreated-layout", "published-bytes", "version-after-new"):
                    rep.violation("recreated-" + x["signature"], f"start-up over '{v['file']}': {x['what']}", {"kind": "files-repair", "case": v})
    return rep.finish()
