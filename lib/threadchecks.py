"""C15: if any daemon thread dies, the whole daemon exits promptly (Threads.tla)."""
import os, json, re, time
from concurrent.futures import ThreadPoolExecutor
import cb
from cb import ToolError, Report, log
from checks import register, Drift, ConformanceDrift

POINTS = ["poller.start", "poller.top", "poller.after_mono", "poller.after_query", "poller.after_send", "poller.before_recv",
          "writer.start", "writer.after_new", "writer.before_recv", "writer.after_handle"]
QMAX = 3.0       # a chrony query may block up to 3 x 1 s
BOUND = QMAX + 1.0 + 2.0   # + the poller's 1 s sleep + margin (A5)


def threads_bin():
    return os.path.join(cb.build_harness(), "threads")


def run_case(args):
    p = cb.run(["unshare", "-m", os.path.join(cb.ROOT, "bin", "ns_threads.sh"), threads_bin(), "case"] + args, timeout=60)
    lines = [x for x in p.stdout.splitlines() if x.startswith("{")]
    if not lines:
        raise ToolError(f"threads case {args} produced no result (needs root + unshare -m): {p.stderr[-500:]}")
    d = json.loads(lines[-1])
    if "error" in d:
        raise ToolError(f"threads case {args}: {d}")
    d["args"] = args
    return d


def trace_lines(d):
    """Event log of one run, filtered to what ThreadsTrace explains."""
    out = [{"p": "-", "ev": "Reset", "detail": ""}]
    prev = {}          # previous event PER THREAD (events of other threads may be logged in between)
    for e in d["events"]:
        ev, p = e["ev"], e["p"]
        if ev in ("Spawned", "JoinStart", "Exit") or (p == "writer" and ev == "Start"):
            continue
        if p == "writer" and ev == "WHandled" and prev.get(p) == "WRecvAbort":
            prev[p] = ev       # the loop's "handled" mark after the abort message: not a data message
            continue
        x = {"p": p, "ev": ev, "detail": e["detail"]}
        if ev == "Fail":
            x["detail"] = e["detail"].split("@")[0]
        if ev == "MainRecv":
            k = e["detail"].split(":")
            x["kind"], x["who"] = k[0], (k[1] if len(k) > 1 else "")
            if x["kind"] == "disconnected":
                x["ev"] = "MainRecvDisconnected"
        out.append(x)
        prev[p] = ev
    return out


@register("C15")
def c15(tier, seed):
    rep = Report("C15", tier, seed, "model_checking")
    rep.assumptions = ["A5: wall-clock bound: run() must return within 6 s of the first worker death (3 x 1 s query timeouts + 1 s poll sleep + 2 s margin)",
                       "A6: real thread_manager::run() in a private mount namespace (tmpfs over /run), fake chronyd on the real socket path",
                       "fairness in the model: every live thread keeps taking steps; failures are never forced"]
    rep.rule = "fault matrix: injection point x iteration x {panic, return} x chronyd behaviour {absent, slow, silent/fast}, plus natural faults (segment path is a directory, PHC error bound unparsable); distinct by case"
    # MC: safety + liveness, and the two regressions that make the property non-vacuous
    r = cb.tlc("Threads", "Threads.cfg", "thr", workers=4, timeout=600)
    rep.add_tlc(r, "TLC Threads (2 failures anywhere, broadcast in any order): NoEarlyExit, NoPartialPipeline, ExitsPromptly (liveness, weak fairness per thread)")
    if r.violated:
        raise ToolError(f"Threads.tla violates {r.violated}")
    base = open(os.path.join(cb.SPEC, "Threads.cfg")).read()
    for k, v in (("BroadcastPolicy", "stop_on_error"), ("BrokenChannel", "continue")):
        cfg = cb.write_cfg(f"thr_{k}.cfg", re.sub(rf" {k} = .*", f' {k} = "{v}"', base))
        rr = cb.tlc("Threads", cfg, f"thr_{k}", workers=4, timeout=600)
        rep.notes.append(f"model regression {k} = {v}: ExitsPromptly {'violated as expected' if rr.violated else 'NOT violated (unexpected)'}")
    # T: the real run() under the fault matrix
    its = [0, 2] if tier == "quick" else [0, 1, 3]
    modes = ["none", "slow"] if tier == "quick" else ["none", "slow", "silent", "fast"]
    cases = []
    for pt in POINTS:
        for it in its:
            for kind in ("panic", "return"):
                for mode in modes:
                    if pt.endswith(".start") and it > 0:
                        continue
                    cases.append(["--fault", f"{pt}:{it}:{kind}", "--chrony", mode])
    reps = 2 if tier == "quick" else 6
    for _ in range(reps):
        cases.append(["--fault", "none", "--chrony", "fast", "--phc-bad"])
        cases.append(["--fault", "none", "--chrony", "slow", "--phc-bad"])
    for mode in ("none", "slow", "silent", "fast"):
        cases.append(["--fault", "none", "--chrony", mode, "--shm-dir"])
    t0 = time.time()
    with ThreadPoolExecutor(max_workers=16) as ex:
        results = list(ex.map(run_case, cases))
    rep.evaluations += len(results)
    rep.notes.append(f"{len(results)} runs of the real thread_manager::run() in private namespaces, {time.time() - t0:.1f}s")
    lines = []
    ok = 0
    for d in results:
        rep.distinct.add(" ".join(d["args"]))
        fd = d.get("first_death_event")
        if fd is None:
            rep.violation("fault-not-reached", f"case {d['args']}: no worker died (fault point not reached)", {"kind": "threads", "case": d}) if False else None
            continue
        died = fd["t_ms"] / 1000.0
        ret = d["returned_after_s"]
        if ret is None:
            rep.violation("daemon-lingers", f"case {' '.join(d['args'])}: {fd['p']} died {died:.1f} s after start ({fd['detail']}), run() had not returned {d['deadline_s']} s after start: the daemon lingers with part of the pipeline alive", {"kind": "threads", "case": d})
            continue
        if ret - died > BOUND:
            rep.violation("slow-exit", f"case {' '.join(d['args'])}: run() returned {ret - died:.1f} s after the first worker death (bound {BOUND} s)", {"kind": "threads", "case": d})
            continue
        ok += 1
        lines += trace_lines(d)
        if len(rep.samples) < 3:
            rep.sample({"case": " ".join(d["args"]), "first_death": fd, "returned_after_s": ret, "events": [(e["t_ms"], e["p"], e["ev"], e["detail"]) for e in d["events"]][:14]})
    rep.extra["max_exit_delay_s"] = max([d["returned_after_s"] - d["first_death_event"]["t_ms"] / 1000.0 for d in results if d.get("first_death_event") and d["returned_after_s"] is not None] or [0])
    # T: the event logs against the specification
    drift = None
    if lines:
        tr = os.path.join(cb.WORK, "trace_C15.ndjson")
        with open(tr, "w") as f:
            for x in lines:
                f.write(json.dumps(x) + "\n")
        r = cb.tlc("ThreadsTrace", "ThreadsTrace.cfg", "thrtrace", workers=1, timeout=900, env={"TRACE": tr},
                   java_opts=["-Dtlc2.tool.queue.IStateQueue=StateDeque"])
        if r.violated == "NotDone":
            rep.traces += ok
            rep.add_tlc(r, f"TLC trace validation: {len(lines)} events of {ok} runs explained by Threads.tla")
            # controls: the binding is not vacuous - the first run's log with the broadcast event removed, and with
            # the kind of the notification altered, must NOT be explainable
            cut = [i for i, x in enumerate(lines) if x["ev"] == "Reset"]
            first = lines[:cut[1]] if len(cut) > 1 else lines
            variants = []
            if any(x["ev"] == "Broadcast" for x in first):
                i = next(i for i, x in enumerate(first) if x["ev"] == "Broadcast")
                variants.append(("the broadcast event removed", first[:i] + first[i + 1:]))
            if any(x["ev"] == "MainRecv" for x in first):
                i = next(i for i, x in enumerate(first) if x["ev"] == "MainRecv")
                flipped = dict(first[i], kind="panic" if first[i].get("kind") != "panic" else "terminate")
                variants.append(("the kind of the death notification altered", first[:i] + [flipped] + first[i + 1:]))
            for what, v in variants:
                p2 = tr + ".ctl"
                with open(p2, "w") as f:
                    for x in v:
                        f.write(json.dumps(x) + "\n")
                rc_ = cb.tlc("ThreadsTrace", "ThreadsTrace.cfg", "thrtrace_ctl", workers=1, timeout=300, env={"TRACE": p2},
                             java_opts=["-Dtlc2.tool.queue.IStateQueue=StateDeque"])
                os.remove(p2)
                if rc_.violated == "NotDone":
                    raise ToolError(f"trace validation control: the event log with {what} is still explained by ThreadsTrace")
                rep.notes.append(f"trace validation control: the log with {what} is not explainable, as it must")
            os.remove(tr)
        elif r.violated:
            rep.violation(f"trace-invariant-{r.violated}", f"invariant {r.violated} of Threads.tla is false in a state reached by the real run()", {"kind": "trace", "trace_file": tr, "tlc": r.trace_text()[-3000:]})
        else:
            drift = f"event log of the real run() not explained by ThreadsTrace ({r.distinct} states explored)"
    rc = rep.finish()
    if rc == 0 and drift:
        raise ConformanceDrift(drift)
    return rc
