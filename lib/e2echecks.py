"""C01 (end-to-end containment) and C12 (pessimistic ordering of clock reads): E2E.tla."""
import os, json, re, time, hashlib
from concurrent.futures import ThreadPoolExecutor
import cb
from cb import ToolError, Report, log
from checks import register, Drift, ConformanceDrift


def e2e_bin():
    return os.path.join(cb.build_harness(), "e2e")


def ejson(args, timeout=1800):
    p = cb.run([e2e_bin()] + args, timeout=timeout)
    if p.returncode != 0 or not p.stdout.strip():
        raise ToolError(f"e2e {' '.join(args)[:100]} failed rc={p.returncode}: {p.stderr[-2000:]}")
    return json.loads(p.stdout.strip().splitlines()[-1])


def e2e_cfg(name, spec, c, view=None):
    t = [f"SPECIFICATION {spec}", "CONSTANTS", " GRACE = 5", " VOID = 1000", " RHO = 1", f" Deltas = {c['deltas']}", f" Bounds = {c['bounds']}",
         " MaxSteps = 0", f" MaxTick = {c['ticks']}", f" MaxPoll = {c['polls']}", f" MaxAsk = {c['asks']}", f" MaxStart = {c['starts']}", " EMax = 2100",
         f" OffsetTerm = \"{c.get('offset', 'abs')}\"", f" PreSyncPolicy = \"{c.get('policy', 'unknown')}\"",
         f" PollerOrder = \"{c['poller']}\"", f" ClientOrder = \"{c['client']}\""]
    if view:
        t.append(f"VIEW {view}")
    t += ["CONSTRAINT Bounded", "INVARIANTS Containment NoTrustBeforeMeasure", "CHECK_DEADLOCK FALSE"]
    return cb.write_cfg(name + ".cfg", "\n".join(t) + "\n")


def e2e_mc(rep, name, c, timeout=3600, workers=10):
    cfg = e2e_cfg("E_" + name, "Spec", c)
    r = cb.tlc("E2E", cfg, "E_" + name, workers=workers, timeout=timeout)
    rep.add_tlc(r, f"TLC E2E {name} (ticks {c['ticks']} of {c['deltas']}, polls {c['polls']}, asks {c['asks']}, starts {c['starts']}, poller {c['poller']}, client {c['client']}, offset {c.get('offset', 'abs')}, pre-sync {c.get('policy', 'unknown')})")
    return r


def e2e_sim(rep, name, c, num, depth, seed):
    """Random behaviours of E2E.tla (-simulate) as replay input."""
    cfg = e2e_cfg("ER_" + name, "RSpec", c, view="ViewNoSid")
    out = os.path.join(cb.WORK, f"ER_{name}.out")
    r = cb.tlc("E2EReplay", cfg, "ER_" + name, workers=1, timeout=900, keep_out=out,
               extra=["-simulate", f"num={num}", "-depth", str(depth), "-seed", str(seed)])
    edges = cb.edges_from_output(open(out).read())
    os.remove(out)
    behs = cb.behaviours_from_edges(edges)
    b = os.path.join(cb.WORK, f"ER_{name}.ndjson")
    cb.write_behaviours(b, behs, {"cfg": name})
    m = re.search(r"The number of states generated: (\d+)", r.out)
    n = int(m.group(1)) if m else len(edges)
    rep.states += n
    rep.transitions += len(edges)
    rep.notes.append(f"TLC -simulate E2EReplay {name}: {num} walks of depth {depth}, {len(edges)} transitions printed, {len(behs)} behaviours")
    return b, len(behs)


def e2e_replay(rep, bfile, orders, props, what, chunk=500, procs=8):
    lines = open(bfile).read().splitlines()
    cdir = cb.workdir(f"echunks_{rep.pid}")
    files = []
    for i in range(0, len(lines), chunk):
        p = os.path.join(cdir, f"c{i}.ndjson")
        open(p, "w").write("\n".join(lines[i:i + chunk]) + "\n")
        files.append(p)
    with ThreadPoolExecutor(max_workers=procs) as ex:
        parts = list(ex.map(lambda p: ejson(["replay", p, "--poller", orders["poller"], "--client", orders["client"], "--stop-on", ",".join(sorted(props))]), files))
    import shutil
    shutil.rmtree(cdir, ignore_errors=True)
    res = {"behaviours": 0, "steps": 0, "comparisons": 0, "violations": [], "drifts": []}
    for part in parts:
        for k in ("behaviours", "steps", "comparisons"):
            res[k] += part[k]
        res["violations"] += part["violations"]
        res["drifts"] += part["drifts"]
    rep.evaluations += res["behaviours"]
    rep.traces += res["behaviours"] - len(res["violations"]) - len(res["drifts"])
    rep.notes.append(f"{what}: {res['behaviours']} behaviours / {res['steps']} steps through the real pipeline, {res['comparisons']} comparisons, {len(res['violations'])} with violations, {len(res['drifts'])} drifts")
    foreign = []
    for v in res["violations"]:
        for x in v["violations"]:
            if x["property"] in props:
                rep.violation(x["signature"], f"{what}: {x['what']}", {"kind": "e2e-replay", "case": v})
            else:
                foreign.append(f"{x['property']}/{x['signature']}: {x['what']}")
    for f in sorted(set(foreign))[:4]:
        log(f"  note: also observed (reported by its own check): {f}")
    with open(bfile) as f:
        for i, line in enumerate(f):
            rep.distinct.add(hashlib.sha1(line.encode()).hexdigest())
            if i in (5, 50):
                b = json.loads(line)
                rep.sample([f"{s['a']}@{s['exp']['now']}s err={s['exp']['err']}" for s in b["steps"][1:]][:16])
    return [f"behaviour {d['behaviour']}: {d['drift']}" for d in res["drifts"]]


def e2e_explore(rep, seeds, polls, orders, props, what):
    with ThreadPoolExecutor(max_workers=8) as ex:
        parts = list(ex.map(lambda s: ejson(["explore", "--seed", str(s), "--polls", str(polls), "--poller", orders["poller"], "--client", orders["client"], "--stop-on", ",".join(sorted(props))]), seeds))
    tot = {"asks": 0, "trusted_intervals": 0, "restarts": 0, "outages": 0, "negative_offsets": 0}
    for s, part in zip(seeds, parts):
        for k in tot:
            tot[k] += part[k]
        for v in [v for v in part["violations"] if v["property"] in props][:3]:
            if v["property"] in props:
                rep.violation(v["signature"], f"{what} (seed {s}): {v['what']}", {"kind": "e2e-explore", "seed": s, "case": v})
        for x in part["samples"][:1]:
            rep.sample({"seed": s, **x})
    rep.evaluations += len(seeds)
    rep.traces += len(seeds)
    tot["smallest_margin_ns"] = min(int(p_["min_margin_ns"]) for p_ in parts)   # 0: true time sat on the edge of an interval (tight histories)
    rep.extra["explore"] = tot
    rep.notes.append(f"{what}: {len(seeds)} histories x {polls} polls: {tot}")


def env_induction(rep, orders):
    """C01/C12 for unbounded time (EnvInd.tla, Apalache): with the EXTRACTED read orders the error envelope is an
    inductive invariant; with either order swapped a containment violation is reachable within 9 steps (controls)."""
    import shutil
    apa = cb.workdir("apa_env_" + rep.pid)
    spec = os.path.join(cb.SPEC, "EnvInd.tla")

    def run(cinit, extra):
        p = cb.run(["timeout", "600", "apalache-mc", "check", f"--cinit={cinit}", f"--out-dir={apa}/o", f"--run-dir={apa}/r"] + extra + [spec], timeout=650)
        return p.stdout + p.stderr
    code = {("mono_first", "real_first"): "CodeOrders", ("query_first", "real_first"): "PollerSwapped", ("mono_first", "mono_first"): "ClientSwapped"}.get((orders["poller"], orders["client"]))
    if code == "CodeOrders":
        for what, extra in (("initial state satisfies IndInv", ["--init=Init", "--inv=IndInv", "--length=0"]), ("IndInv (error envelope, Containment) is inductive over every action", ["--init=IndInit", "--inv=IndInv", "--length=1"])):
            out = run(code, extra)
            if "The outcome is: NoError" not in out:
                raise ToolError(f"Apalache: EnvInd {what} failed:\n{out[-1500:]}")
            rep.notes.append(f"Apalache (EnvInd.tla, unbounded time and integers, the extracted read orders): {what}")
        rep.extra["symbolic_obligations"] = rep.extra.get("symbolic_obligations", 0) + 2
        # the same as a TLAPS proof (assumes the code's orders), checked by tlapm
        import re
        d = os.path.join(apa, "tlaps")
        os.makedirs(d, exist_ok=True)
        for f in ("EnvInd.tla", "EnvIndProof.tla"):
            shutil.copy(os.path.join(cb.SPEC, f), d)
        p = cb.run(["timeout", "900", "tlapm", "--threads", "8", "--cleanfp", "EnvIndProof.tla"], cwd=d, timeout=950)
        m = re.search(r"All (\d+) obligations proved", p.stdout + p.stderr)
        if not m:
            raise ToolError("tlapm: EnvIndProof.tla is not proved:\n" + (p.stdout + p.stderr)[-1500:])
        rep.notes.append(f"TLAPS (EnvIndProof.tla, the code's read orders assumed): Spec => []Containment, all {m.group(1)} obligations proved ({p.wall:.0f}s)")
        rep.extra["symbolic_obligations"] += int(m.group(1))
    else:
        rep.notes.append(f"EnvInd.tla: the extracted read orders {orders} are not the ones the envelope argument rests on; induction not attempted")
    for ctl in ("PollerSwapped", "ClientSwapped"):
        out = run(ctl, ["--init=Init", "--inv=Containment", "--length=9"])
        if "The outcome is: Error" not in out:
            raise ToolError(f"Apalache control {ctl}: no containment violation within 9 steps - the model says nothing about the read order:\n{out[-800:]}")
        rep.notes.append(f"Apalache control {ctl}: a containment violation is reachable within 9 steps, as it must")
    shutil.rmtree(apa, ignore_errors=True)


def orders_or_drift():
    o = ejson(["order"])
    return o


MCQ = dict(deltas="{1, 5, 1000}", bounds="{0, 3}", ticks=2, polls=2, asks=1, starts=1)
MCT = dict(deltas="{1, 4, 5, 994, 1000}", bounds="{0, 3}", ticks=3, polls=2, asks=1, starts=1)   # ~2*10^8 states, ~20 min
SIM = dict(deltas="{1, 4, 5, 994, 1000}", bounds="{0, 3}", ticks=6, polls=4, asks=3, starts=2)
ASSUME = ["scaled units: time 1 s, error 1 unit = RHO * 1 s; the replay uses RHO = 65536 ppb, 1 unit = 65536 ns, reports rounded UP to chrony's wire format",
          "the harness owns true time (virtual clock through the cfg-gated override): CLOCK_REALTIME = true time + err, CLOCK_MONOTONIC = uptime",
          "abstract segment in the model: a reader obtains the latest record or its cached one (what ShmSeg's NoTorn + Monotone guarantee)",
          "A4: exhaustive for per-kind budgets (<= 2-3 delays, 2 polls, 1-2 asks, 1-2 starts); beyond that TLC -simulate + seeded random histories"]


@register("C01")
def c01(tier, seed):
    rep = Report("C01", tier, seed, "model_checking")
    rep.assumptions = ASSUME
    rep.rule = "behaviours = TLC -simulate walks of E2E.tla replayed through the real pipeline + seeded random virtual-time histories (outages, restarts, negative offsets, asks at adversarial instants); distinct by content hash"
    o = orders_or_drift()
    rep.extra["extracted_orders"] = o
    orders = {"poller": o["poller"] if o["poller"] != "other" else "mono_first", "client": o["client"] if o["client"] != "other" else "real_first"}
    r = e2e_mc(rep, "q" if tier == "quick" else "t", dict(MCQ if tier == "quick" else MCT, **orders), timeout=5400)
    mc_violated = r.violated
    env_induction(rep, orders)
    b, n = e2e_sim(rep, "sim", dict(SIM, **orders), 400 if tier == "quick" else 6000, 45, seed)
    drifts = e2e_replay(rep, b, orders, {"C01"}, "E2E walks")
    os.remove(b)
    e2e_explore(rep, [seed * 100 + i for i in range(8 if tier == "quick" else 64)], 3000 if tier == "quick" else 30000, orders, {"C01"}, "random virtual-time histories")
    # the segment itself: a record that mixes two publications pairs a new as_of with an old bound - containment is
    # gone whatever the rest of the pipeline does. Cover + random schedules of the real ShmWriter/ShmReader.
    import segchecks
    segchecks.PROPSETS["C01"] = {"C02"}
    wprog, rprog, xdrift, raw = segchecks.extract_programs()
    srun = segchecks.SegRun(rep)
    cf = segchecks.base_cfgs(tier)
    b2, r2, _, _ = segchecks.cover(rep, "rp_warm", cf["rp_warm"], wprog, rprog)
    srun.replay(b2, False, "segment cover rp_warm (torn records reaching clients)")
    srun.explore(seed, 20 if tier == "quick" else 300, 400, wprog, rprog, crash_pct=6, what="segment random schedules (torn records reaching clients)")
    drifts += srun.drifts
    if mc_violated and not rep.violations:
        raise ToolError(f"E2E.tla violates {mc_violated} with the code's read orders {orders} but no real execution reproduced it:\n{r.trace_text()[-2500:]}")
    rc = rep.finish()
    if rc == 0 and "other" in (o["poller"], o["client"]):
        raise Drift(f"clock-read order outside the specification's family: {o}")
    if rc == 0 and drifts:
        raise ConformanceDrift("; ".join(drifts[:3]))
    return rc


@register("C12")
def c12(tier, seed):
    rep = Report("C12", tier, seed, "model_checking")
    rep.assumptions = ASSUME
    rep.rule = "order of the clock reads extracted from one real poller iteration and one real now(); E2E.tla with a Tick between every pair of steps; walks replayed with the delays placed between the real reads; distinct by content hash"
    o = orders_or_drift()
    rep.extra["extracted_orders"] = o
    rep.sample(o)
    if o["poller"] != "mono_first":
        rep.violation("as-of-not-before-query", f"the poller iteration performs {o['poller_events']}: the as-of instant is not a monotonic reading taken before the request to chronyd", {"kind": "order", "observed": o})
    if o["client"] != "real_first":
        rep.violation("client-read-order", f"now() reads the clocks in the order {o['client_reads']} (0 = CLOCK_REALTIME): the realtime clock is not read first", {"kind": "order", "observed": o})
    orders = {"poller": o["poller"] if o["poller"] in ("mono_first", "query_first") else "mono_first", "client": o["client"] if o["client"] in ("real_first", "mono_first") else "real_first"}
    # the consequence, in the model: with the code's orders every delay preserves containment ...
    r = e2e_mc(rep, "q" if tier == "quick" else "t", dict(MCQ if tier == "quick" else MCT, **orders), timeout=5400)
    if r.violated:
        rep.notes.append(f"E2E.tla with the extracted orders violates {r.violated}: a delay between the reads shrinks the interval below what C01 requires")
    # ... and each swapped order breaks it (regression of the model: the property is not vacuous)
    for k, v in (("poller", "query_first"), ("client", "mono_first")):
        rr = e2e_mc(rep, f"swap_{k}", dict(MCT, ticks=3, asks=1, starts=1, **dict({"poller": "mono_first", "client": "real_first"}, **{k: v})), timeout=1200)
        rep.notes.append(f"model regression: {k} order {v} => Containment {'violated as expected' if rr.violated else 'NOT violated (unexpected)'}")
    env_induction(rep, orders)
    # R: walks with delays between the reads
    b, n = e2e_sim(rep, "sim", dict(SIM, **orders), 400 if tier == "quick" else 6000, 45, seed)
    drifts = e2e_replay(rep, b, orders, {"C12"}, "E2E walks")
    os.remove(b)
    e2e_explore(rep, [seed * 100 + i for i in range(8 if tier == "quick" else 64)], 3000 if tier == "quick" else 30000, orders, {"C12"}, "random virtual-time histories (delays between every pair of steps)")
    # the poller half on every poll outcome incl. the PHC path, the client half on the vector set (Rust and C)
    import daemonchecks, clientchecks
    bd, _ = daemonchecks.daemon_cover(rep, "phc", daemonchecks.COVERS["phc"])
    drifts += daemonchecks.daemon_replay(rep, bd, {"C12"}, "Daemon cover phc (clock read before the query on every path)")
    summ, bad, vec = clientchecks.run_vectors(rep, seed, 1000)
    os.remove(vec)
    for x in summ["order_bad"][:3]:
        rep.violation("client-read-order", "now() did not read CLOCK_REALTIME first and CLOCK_MONOTONIC second", {"kind": "vector", "case": x})
    import daemonchecks
    daemonchecks.whole_runs(rep, tier, daemonchecks.WHOLE_PROPS["C12"])
    rc = rep.finish()
    if rc == 0 and drifts:
        raise ConformanceDrift("; ".join(drifts[:3]))
    return rc
