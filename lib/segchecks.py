"""Checks decided on the ShmSeg block of the specification: C02 C03 C04 C11 C18.

Pipeline (DESIGN.md section 2):
  X  extract the orderings/fences of write()/snapshot() from the code -> model constants
  MC TLC on ShmSeg (SC exhaustive, RA exhaustive) with those constants
  R  transition cover of small configurations replayed step by step through the real code
  T  random controlled schedules of the real code, observational oracle + TLC trace validation
"""
import os, json, hashlib, re, time
import cb
from cb import ToolError, Report, log
import checks
from checks import register, Drift, ConformanceDrift

SEG = None  # path of the harness binary, set by build()


def build():
    global SEG
    if SEG is None:
        d = cb.build_harness()
        SEG = os.path.join(d, "seg")
    return SEG


def seg_json(args, timeout=900):
    p = cb.run([build()] + args, timeout=timeout)
    if p.returncode != 0 or not p.stdout.strip():
        raise ToolError(f"seg {' '.join(args)[:120]} failed rc={p.returncode}: {p.stderr[-2000:]}")
    return json.loads(p.stdout.strip().splitlines()[-1])


# ------------------------------------------------------------------------------------------ X
LOAD = {"Acquire": "Acquire", "SeqCst": "Acquire", "Relaxed": "Relaxed"}
STORE = {"Release": "Release", "SeqCst": "Release", "Relaxed": "Relaxed"}
WF = {"Release": "Release", "AcqRel": "Release", "SeqCst": "Release"}
RF = {"Acquire": "Acquire", "AcqRel": "Acquire", "SeqCst": "Acquire"}


def extract_programs():
    """Binding X. Returns (wprog, rprog, drift_message_or_None, raw)."""
    raw = seg_json(["extract"])
    drift = None
    wprog = {"load": "Acquire", "odd": "Release", "fence": "none", "even": "Release", "ver": "Relaxed"}
    rprog = {"ver": "Acquire", "g1": "Acquire", "fence": "none", "g2": "Acquire"}
    try:
        w = [x.split() for x in raw["write"]]
        i = 0
        assert w[i][:2] == ["load", "gen"]; wprog["load"] = LOAD[w[i][2]]; i += 1
        assert w[i][:2] == ["store", "gen"]; wprog["odd"] = STORE[w[i][2]]; i += 1
        if w[i][0] == "fence":
            wprog["fence"] = WF.get(w[i][1], "none"); i += 1
        assert w[i] == ["dw", "0"] and w[i + 1] == ["dw", "1"]; i += 2
        assert w[i][:2] == ["store", "gen"]; wprog["even"] = STORE[w[i][2]]; i += 1
        assert i == len(w)
        nv = [x.split() for x in raw["new_warm"] if x.startswith("store")]
        assert len(nv) == 1 and nv[0][:2] == ["store", "ver"]; wprog["ver"] = STORE[nv[0][2]]
        r = [x.split() for x in raw["snapshot_accept"]]
        i = 0
        assert r[i][:2] == ["load", "ver"]; rprog["ver"] = LOAD[r[i][2]]; i += 1
        assert r[i][:2] == ["load", "gen"]; rprog["g1"] = LOAD[r[i][2]]; i += 1
        assert r[i] == ["dr", "0"] and r[i + 1] == ["dr", "1"]; i += 2
        if r[i][0] == "fence":
            rprog["fence"] = RF.get(r[i][1], "none"); i += 1
        assert r[i][:2] == ["load", "gen"]; rprog["g2"] = LOAD[r[i][2]]; i += 1
        assert i == len(r)
        assert [x.split()[:2] for x in raw["snapshot_unchanged"]] == [["load", "ver"], ["load", "gen"]]
        assert [x.split()[:2] for x in raw["snapshot_odd"]] == [["load", "ver"], ["load", "gen"]]
    except (AssertionError, IndexError, KeyError) as e:
        drift = f"write()/snapshot() access sequence is outside the family the specification expresses: write={raw.get('write')} snapshot={raw.get('snapshot_accept')} unchanged={raw.get('snapshot_unchanged')} odd={raw.get('snapshot_odd')}"
    return wprog, rprog, drift, raw


def tla_rec(d):
    return "[" + ", ".join(f'{k} |-> "{v}"' for k, v in d.items()) + "]"


# ------------------------------------------------------------------------------------------ MC / cover
def seg_module(name, base, wprog, rprog, extra=""):
    return cb.gen_module(name, base, f"WX == {tla_rec(wprog)}\nRX == {tla_rec(rprog)}\n{extra}")


def seg_cfg(name, spec, c, invariants, properties=(), view=None, constraint=None, post=None):
    constraint = constraint or c.get("constraint")
    t = [f"SPECIFICATION {spec}", "CONSTANTS",
         f" SC = {'TRUE' if c['sc'] else 'FALSE'}", f" W = {c.get('w', 2)}", f" GenMod = {c.get('genmod', 65536)}",
         f" RETRY = {c['retry']}", f" Readers <- {c['readers']}", f" MaxPub = {c['maxpub']}",
         f" MaxCrash = {c['maxcrash']}", f" MaxInc = {c['maxinc']}", f" MaxCalls = {c['maxcalls']}",
         f" StartFiles <- {c['files']}", " WProg <- WX", " RProg <- RX"]
    if view:
        t.append(f"VIEW {view}")
    if constraint:
        t.append(f"CONSTRAINT {constraint}")
    if invariants:
        t.append("INVARIANTS " + " ".join(invariants))
    if properties:
        t.append("PROPERTIES " + " ".join(properties))
    if post:
        t.append(f"POSTCONDITION {post}")
    t.append("CHECK_DEADLOCK FALSE")
    return cb.write_cfg(name + ".cfg", "\n".join(t) + "\n")


def mc(rep, name, c, wprog, rprog, invariants, properties=(), spec="Spec", workers=8, timeout=3600, extra=""):
    mod = seg_module("X_" + name, "MC_seg", wprog, rprog, extra)
    cfg = seg_cfg("X_" + name, spec, c, invariants, properties)
    r = cb.tlc(mod, cfg, name, workers=workers, timeout=timeout)
    rep.add_tlc(r, f"TLC {name} ({'SC' if c['sc'] else 'RA'}, readers {c['readers']}, files {c['files']}, maxpub {c['maxpub']}, crashes {c['maxcrash']}) invariants {' '.join(invariants)} {' '.join(properties)}")
    return r


def spec_hash():
    h = hashlib.sha1()
    for f in sorted(os.listdir(cb.SPEC)):
        if f.endswith(".tla"):
            h.update(open(os.path.join(cb.SPEC, f), "rb").read())
    return h


def cover(rep, name, c, wprog, rprog, invariants=("NoTorn", "Monotone"), timeout=900):
    """Transition cover of configuration c (SegReplay, -workers 1). Returns (behaviour file, TlcResult, edges).
    If an invariant is violated, returns the path to the violating state as a single behaviour."""
    mod_text = f"{tla_rec(wprog)}{tla_rec(rprog)}{json.dumps(c, sort_keys=True)}{invariants}"
    h = spec_hash()
    h.update(mod_text.encode())
    key = h.hexdigest()[:16]
    cdir = cb.CACHE
    os.makedirs(cdir, exist_ok=True)
    bfile = os.path.join(cdir, f"{name}_{key}.ndjson")
    meta = os.path.join(cdir, f"{name}_{key}.json")
    if os.path.exists(bfile) and os.path.exists(meta):
        m = json.load(open(meta))
        r = cb.TlcResult("", 0, 0.0)
        r.distinct, r.generated, r.depth, r.violated, r.ok = m["distinct"], m["generated"], m["depth"], m["violated"], m["violated"] is None
        rep.add_tlc(r, f"TLC cover {name} (cached)")
        os.utime(bfile)
        return bfile, r, m["edges"], m["behaviours"]
    mod = seg_module("R_" + name, "SegReplay", wprog, rprog)
    cfg = seg_cfg("R_" + name, "RSpec", c, list(invariants), view="ViewNoSid", constraint="FewRetries")
    out = os.path.join(cb.WORK, f"R_{name}.out")
    r = cb.tlc(mod, cfg, "R_" + name, workers=1, timeout=timeout, keep_out=out)
    text = open(out).read()
    os.remove(out)
    edges = cb.edges_from_output(text)
    if r.violated:
        # path to the violating state: its sid is printed in the last state of the error trace
        m = re.findall(r"/\\ sid = (\d+)", r.trace_text())
        if not m:
            raise ToolError("cannot locate the violating state in TLC's error trace")
        sid = int(m[-1])
        parent = {e["d"]: e for e in edges}
        path, cur = [], sid
        while cur in parent:
            e = parent[cur]
            path.append({k: v for k, v in e.items() if k not in ("s", "d")})
            cur = e["s"]
        path.reverse()
        behs = [path]
    else:
        behs = cb.behaviours_from_edges(edges)
    cb.write_behaviours(bfile, behs, {"cfg": name, "consts": c, "wprog": wprog, "rprog": rprog})
    cb.write_json_atomic(meta, {"distinct": r.distinct, "generated": r.generated, "depth": r.depth, "violated": r.violated,
                                "edges": len(edges), "behaviours": len(behs)})
    rep.add_tlc(r, f"TLC cover {name}: {len(edges)} transitions printed, {len(behs)} maximal paths")
    cb.prune_cache(cdir, name)
    return bfile, r, len(edges), len(behs)


def head_file(path, n):
    out = path + f".head{n}"
    with open(path) as f, open(out, "w") as g:
        for i, line in enumerate(f):
            if i >= n:
                break
            g.write(line)
    return out


PROPSETS = {"C02": {"C02"}, "C03": {"C03"}, "C04": {"C04", "C02", "C03"}, "C11": {"C11"}, "C18": {"C18"},
            "C16": {"C16"}, "C17": {"C17"}}


class SegRun:
    """Accumulates drifts / foreign violations of one check run."""

    def __init__(self, rep):
        self.rep = rep
        self.drifts = []
        self.foreign = []

    def take(self, res, what, kind):
        """res: JSON result of `seg replay|explore|stall|wrap|gensweep`."""
        pid = self.rep.pid
        for e in res.get("errors", []):
            raise ToolError(f"{what}: {e}")
        for v in res.get("violations", []):
            mine = [x for x in v["violations"] if x["property"] in PROPSETS[pid]]
            other = [x for x in v["violations"] if x["property"] not in PROPSETS[pid]]
            for x in mine:
                sig = x["signature"] if x["property"] == pid else f"{x['property']}:{x['signature']}"
                self.rep.violation(sig, f"{what}: {x['what']}", {"kind": kind, "source": what, "case": v})
            for x in other:
                self.foreign.append(f"{x['property']}/{x['signature']}: {x['what']}")
        for d in res.get("drifts", []):
            self.drifts.append(f"{what}: behaviour {d.get('behaviour')}: {d['drift']}")

    def replay(self, bfile, ra, what, limit=None, chunk=400, procs=8):
        """Replay the behaviours of bfile on the real code: chunks of `chunk` behaviours, one fresh
        process per chunk (ShmWriter::new leaks a descriptor and, when it dies inside new(), a mapping),
        `procs` processes in parallel."""
        from concurrent.futures import ThreadPoolExecutor
        lines = open(bfile).read().splitlines()
        if limit:
            lines = lines[:limit]
        cdir = cb.workdir(f"chunks_{self.rep.pid}")
        files = []
        for i in range(0, len(lines), chunk):
            p = os.path.join(cdir, f"c{i}.ndjson")
            with open(p, "w") as f:
                f.write("\n".join(lines[i:i + chunk]) + "\n")
            files.append(p)
        t0 = time.time()
        with ThreadPoolExecutor(max_workers=procs) as ex:
            stop = ["--stop-on", ",".join(sorted(PROPSETS[self.rep.pid]))]
            parts = list(ex.map(lambda p: seg_json(["replay", p] + stop + (["--ra"] if ra else [])), files))
        res = {"behaviours": 0, "steps": 0, "comparisons": 0, "violations": [], "drifts": [], "errors": []}
        for part in parts:
            for k in ("behaviours", "steps", "comparisons"):
                res[k] += part[k]
            for k in ("violations", "drifts", "errors"):
                res[k] += part[k]
        res["wall_s"] = time.time() - t0
        import shutil
        shutil.rmtree(cdir, ignore_errors=True)
        self.take(res, what, "replay-ra" if ra else "replay-sc")
        nviol = len(res["violations"])
        ok = res["behaviours"] - nviol - len(res["drifts"])
        self.rep.traces += max(ok, 0)
        self.rep.evaluations += res["behaviours"]
        self.rep.notes.append(f"{what}: {res['behaviours']} behaviours / {res['steps']} steps replayed on the real code, {res['comparisons']} comparisons, {len(res['drifts'])} drifts, {nviol} with violations, {res['wall_s']:.1f}s")
        return res

    def explore(self, seed, runs, steps, wprog, rprog, w=7, readers=3, crash_pct=3, what="explore", controls=False):
        tr = os.path.join(cb.WORK, f"trace_{self.rep.pid}_{seed}.ndjson")
        res = seg_json(["explore", "--seed", str(seed), "--runs", str(runs), "--steps", str(steps), "--w", str(w),
                        "--readers", str(readers), "--crash-pct", str(crash_pct), "--trace", tr,
                        "--stop-on", ",".join(sorted(PROPSETS[self.rep.pid]))])
        self.take(res, what, "explore")
        self.rep.evaluations += res["runs"]
        self.rep.notes.append(f"{what}: seed {seed}, {res['runs']} runs, {res['steps']} scheduler steps, {res['calls']} snapshot calls, {res['publications']} publications, {res['crashes']} crashes, {res['spins']} spins, {res['events']} events, {res['wall_s']:.1f}s")
        # T: validate the event log against the specification
        if not res["violations"]:
            rs = {1: "R1", 2: "R2", 3: "R3"}[readers]
            mod = seg_module(f"T_{self.rep.pid}", "SegTrace", wprog, rprog)
            c = dict(sc=True, w=w, retry=1000000, readers=rs, maxpub=1000000, maxcrash=1000000, maxinc=1000000, maxcalls=1000000, files="SFone")
            cfg = seg_cfg(f"T_{self.rep.pid}", "TSpec", c,
                          ["NoTorn", "NoTornCache", "Monotone", "CatchUp", "NoReaderDuringWipe", "Repair", "GenProtocol", "Bounded"],
                          post="Accepted")
            r = cb.tlc(mod, cfg, f"T_{self.rep.pid}", workers=1, timeout=600, env={"TRACE": tr},
                       java_opts=["-Xss1g", "-Dtlc2.tool.queue.IStateQueue=StateDeque"])
            if r.violated or "TRACE-REJECTED" in r.out or not r.ok:
                m = re.search(r"TRACE-REJECTED at line\",\s*(\d+)", r.out)
                line = int(m.group(1)) if m else -1
                ev = ""
                try:
                    ev = open(tr).read().splitlines()[line - 1]
                except Exception:
                    pass
                if r.violated and r.violated != "Accepted" and "TRACE-REJECTED" not in r.out:
                    # an invariant of the specification is false in a state of a real execution
                    self.rep.violation(f"trace-invariant-{r.violated}", f"{what}: invariant {r.violated} of ShmSeg is false in a state reached by the real code", {"kind": "trace", "trace_file": tr, "tlc": r.trace_text()[-3000:]})
                else:
                    self.drifts.append(f"{what}: event log rejected by SegTrace at line {line}: {ev[:300]}")
            else:
                self.rep.traces += res["runs"]
                self.rep.add_tlc(r, f"TLC trace validation of {res['events']} events ({res['runs']} runs)")
                if controls:
                    self.trace_controls(tr, mod, cfg)
                os.remove(tr)
        return res

    def trace_controls(self, tr, mod, cfg):
        """The binding is not vacuous: the accepted log with ONE recorded field corrupted, and with ONE hook's event
        removed, must be rejected by the same trace specification."""
        lines = open(tr).read().splitlines()
        # first run only (up to the second Reset): fast
        cut = [i for i, l in enumerate(lines) if '"a":"Reset"' in l]
        first = lines[:cut[1]] if len(cut) > 1 else lines

        def variant(name, f):
            out = f(list(first))
            if out is None:
                return None
            p = tr + "." + name
            open(p, "w").write("\n".join(out) + "\n")
            r = cb.tlc(mod, cfg, f"T_{self.rep.pid}_ctl", workers=1, timeout=300, env={"TRACE": p},
                       java_opts=["-Xss1g", "-Dtlc2.tool.queue.IStateQueue=StateDeque"])
            os.remove(p)
            return bool(r.violated or "TRACE-REJECTED" in r.out or not r.ok)

        def corrupt_field(ls):
            for i, l in enumerate(ls):
                e = json.loads(l)
                if e["a"] == "RG1":
                    e["v"] = (e["v"] + 2) % 65536        # the generation the reader says it loaded
                    ls[i] = json.dumps(e, separators=(",", ":"))
                    return ls
            return None

        def drop_hook(ls):
            for i, l in enumerate(ls):
                if json.loads(l)["a"] == "WOdd":         # the odd store goes unrecorded
                    return ls[:i] + ls[i + 1:]
            return None
        for name, f, what in (("field", corrupt_field, "one loaded generation value altered"), ("hook", drop_hook, "the odd store's event removed")):
            rej = variant(name, f)
            if rej is None:
                continue
            if not rej:
                raise ToolError(f"trace validation control: the event log with {what} is still accepted - the trace specification constrains nothing there")
            self.rep.notes.append(f"trace validation control: the accepted log with {what} is rejected by SegTrace, as it must")

    def finish(self):
        for f in sorted(set(self.foreign))[:5]:
            log(f"  note: also observed (reported by its own check): {f}")
        rc = self.rep.finish()
        if rc == 0 and self.drifts:
            hard = [d for d in self.drifts if d.startswith("write()/snapshot() access sequence is outside")]
            if hard:
                raise Drift("; ".join(hard[:1]))
            raise ConformanceDrift("; ".join(self.drifts[:3]))
        return rc


def unhooked_stress(run, secs):
    """Free-running writer + readers on the UNHOOKED crate (the statements the hooks replace), observational oracle."""
    d = os.path.join(cb.ROOT, "harness-plain")
    lk = cb.cargo_lock()
    try:
        p = cb.run(["cargo", "build", "--release", "--offline"], cwd=d, timeout=1800)
        if p.returncode != 0:
            raise ToolError("unhooked stress harness does not build:\n" + p.stderr[-2000:])
    finally:
        lk.close()
    p = cb.run([os.path.join(d, "target", "release", "stress"), "--secs", str(secs), "--readers", "3"], timeout=secs * 10 + 120)
    if p.returncode != 0 or not p.stdout.strip():
        run.rep.violation("unhooked-stress-crashed", f"free-running stress of the unhooked ShmWriter/ShmReader died (rc {p.returncode})", {"kind": "stress", "stderr": p.stderr[-1000:]})
        return
    res = json.loads(p.stdout.strip().splitlines()[-1])
    run.rep.evaluations += 1
    run.rep.notes.append(f"unhooked free-running stress: {res['publications']} publications, {res['snapshots']} snapshots by {res['readers']} readers in {res['secs']} s, then {res.get('sleep_sweeps', 0)} sleeping-reader gaps up to 70000 publications, {len(res['violations'])} violations")
    for v in res["violations"]:
        prop = v.split()[0]
        if prop in PROPSETS[run.rep.pid]:
            run.rep.violation("unhooked-stress", f"free-running stress of the unhooked code: {v}", {"kind": "stress", "result": res})
    if not run.rep.violations:
        hook_lint()       # after the stress: a violation seen on the shipped statements is a verdict, a mere divergence is drift


def hook_lint():
    """The statements mirrored under cfg(clockbound_verif) must still be the ones the hooks were written for."""
    import re as _re
    allowed = {"use std::sync::atomic;", "self.ceb.write(*ceb);", "let snapshot = unsafe { self.ceb_shm.read_volatile() };"}
    for f in ("reader.rs", "writer.rs", "shm_header.rs"):
        src = open(os.path.join("/repo/clock-bound-shm/src", f)).read().splitlines()
        for i, line in enumerate(src):
            if line.strip() == "#[cfg(not(clockbound_verif))]":
                nxt = src[i + 1].strip() if i + 1 < len(src) else ""
                if nxt not in allowed:
                    raise Drift(f"{f}:{i + 2}: the statement guarded by cfg(not(clockbound_verif)) changed to `{nxt}`; its cfg(clockbound_verif) mirror no longer represents the code")


REFINES_CONTROL = '''
WpcBad == CASE wpc = "idle" -> "idle" [] wpc = "odd" -> "ld" [] wpc \\in {"wfence", "w1", "w2"} -> "odd" [] wpc = "even" -> "h2" [] OTHER -> "dead"
SB == INSTANCE SeqInd WITH gen <- Top("gen"), w1 <- Top(WL(1)), w2 <- Top(WL(2)), wpc <- WpcBad, cur <- wk, done <- pubDone,
       rpc <- [r \\in Readers |-> RpcMap(r)], rg1 <- g1, rv1 <- [r \\in Readers |-> snap[r][1]], rv2 <- [r \\in Readers |-> snap[r][2]],
       cgen <- cacheGen, cpub <- [r \\in Readers |-> cacheRec[r][1]]
BadStep == [][SB!Next]_(SB!vars)
'''


def seg_refines(rep, tier, wprog, rprog):
    """TLC: ShmSeg (SC, warm starts, the extracted programs) refines SeqInd and its reachable states satisfy SeqInd's
    inductive invariant under the refinement mapping of SegRefines.tla; a wrong mapping is rejected (control)."""
    c = dict(sc=True, retry=2, readers="R2", maxpub=2 if tier == "quick" else 3, maxcrash=1, maxinc=2, maxcalls=1 if tier == "quick" else 2, files="SFref")
    mod = seg_module("X_refines_" + rep.pid, "SegRefines", wprog, rprog, REFINES_CONTROL)
    cfg = seg_cfg("X_refines_" + rep.pid, "Spec", c, ["RefInv", "NeverCold"], ["RefStep"])
    r = cb.tlc(mod, cfg, "refines_" + rep.pid, workers=8, timeout=3000)
    rep.add_tlc(r, "TLC SegRefines: ShmSeg (SC, warm start files, two readers) => SeqInd!Next steps, SeqInd!IndInv on every reachable state")
    if r.violated:
        raise Drift(f"ShmSeg no longer refines SeqInd ({r.violated}): the unbounded argument does not cover this code")
    cfg = seg_cfg("X_refines_" + rep.pid, "Spec", dict(c, maxpub=2, maxcalls=1), [], ["BadStep"])
    r2 = cb.tlc(mod, cfg, "refines_" + rep.pid, workers=4, timeout=600)
    if not r2.violated:
        raise ToolError("refinement control: a wrong mapping (second word written = still 'odd') was accepted")
    rep.notes.append("refinement control: a wrong pc mapping is rejected by TLC, as it must")


def seq_induction(rep):
    """C02/C03 for unbounded publications, deaths and warm restarts (SC): SeqInd.tla's inductive invariant by Apalache,
    plus two controls (a broken protocol must NOT pass)."""
    import shutil
    apa = cb.workdir("apa_seq_" + rep.pid)
    src = open(os.path.join(cb.SPEC, "SeqInd.tla")).read()

    def run(path, extra):
        p = cb.run(["timeout", "600", "apalache-mc", "check", "--inv=IndInv", f"--out-dir={apa}/o", f"--run-dir={apa}/r"] + extra + [path], timeout=650)
        return p.stdout + p.stderr
    for what, extra in (("initial state satisfies IndInv", ["--init=Init", "--length=0"]), ("IndInv is inductive over every action", ["--init=IndInit", "--length=1"])):
        out = run(os.path.join(cb.SPEC, "SeqInd.tla"), extra)
        if "The outcome is: NoError" not in out:
            raise ToolError(f"Apalache: SeqInd {what} failed:\n{out[-1500:]}")
        rep.notes.append(f"Apalache (SeqInd.tla: unbounded publications, deaths and warm restarts, two readers, SC): {what}")
    controls = [("the writer does not make the generation odd before the copy", "gen' = (IF IsEven(gen) THEN gen + 1 ELSE gen) /\\ wpc' = \"odd\"", "gen' = gen /\\ wpc' = \"odd\""),
                ("the reader accepts without comparing the generations", "IF gen = rg1[r]\n     THEN /\\ cgen'", "IF TRUE\n     THEN /\\ cgen'")]
    for what, old, new in controls:
        if old not in src:
            raise ToolError("SeqInd.tla changed: control mutation no longer applies")
        d = os.path.join(apa, "ctl")
        os.makedirs(d, exist_ok=True)
        open(os.path.join(d, "SeqInd.tla"), "w").write(src.replace(old, new))
        out = run(os.path.join(d, "SeqInd.tla"), ["--init=IndInit", "--length=1"])
        if "The outcome is: Error" not in out:
            raise ToolError(f"Apalache control: with '{what}' the invariant is still inductive - it says nothing:\n{out[-800:]}")
        rep.notes.append(f"Apalache control: '{what}' breaks inductiveness, as it must")
    rep.extra["symbolic_obligations"] = rep.extra.get("symbolic_obligations", 0) + 2
    # the same invariant as a TLAPS proof (no bound on anything: integers, behaviour length), checked by tlapm
    d = os.path.join(apa, "tlaps")
    os.makedirs(d, exist_ok=True)
    for f in ("SeqInd.tla", "SeqIndProof.tla"):
        shutil.copy(os.path.join(cb.SPEC, f), d)
    p = cb.run(["timeout", "900", "tlapm", "--threads", "8", "--cleanfp", "SeqIndProof.tla"], cwd=d, timeout=950)
    m = re.search(r"All (\d+) obligations proved", p.stdout + p.stderr)
    if not m:
        raise ToolError("tlapm: SeqIndProof.tla is not proved:\n" + (p.stdout + p.stderr)[-1500:])
    rep.notes.append(f"TLAPS (SeqIndProof.tla): Init => IndInv, IndInv /\\ [Next]_vars => IndInv', Spec => [](AcceptOk /\\ CacheOk /\\ ServeOk): all {m.group(1)} obligations proved ({p.wall:.0f}s)")
    rep.extra["symbolic_obligations"] += int(m.group(1))
    shutil.rmtree(apa, ignore_errors=True)


def base_cfgs(tier):
    """Configurations shared by the segment checks."""
    q = tier == "quick"
    return {
        # SC exhaustive, two readers
        "sc2": dict(sc=True, retry=2, readers="R2", maxpub=3, maxcrash=1 if q else 2, maxinc=2 if q else 3, maxcalls=2, files="SFra" if q else "SFwarm"),
        # RA exhaustive, one reader (two in thorough), with EDGE printing for the O2 replay
        "ra1": dict(sc=False, retry=2, readers="R1", maxpub=3, maxcrash=1, maxinc=2, maxcalls=2, files="SFra"),
        "ra2": dict(sc=False, retry=2, readers="R2", maxpub=3, maxcrash=0, maxinc=1, maxcalls=1, files="SFone"),
        # replay covers (real RETRY)
        "rp_warm": dict(sc=True, retry=1000000, readers="R1", maxpub=3, maxcrash=1, maxinc=2, maxcalls=2, files="SFrp"),
        "rp_cold": dict(sc=True, retry=1000000, readers="R1", maxpub=2, maxcrash=1, maxinc=2, maxcalls=2, files="SFall"),
        "rp_two": dict(sc=True, retry=1000000, readers="R2", maxpub=2, maxcrash=0, maxinc=1, maxcalls=1, files="SFone"),
        "rp_ra": dict(sc=False, retry=1000000, readers="R1", maxpub=2, maxcrash=0, maxinc=1, maxcalls=2, files="SFone"),
    }


def common_assumptions():
    return ["A1: the non-atomic record copy is modelled as W relaxed word accesses (W=2 chunks in exhaustive runs, 7 words in traces)",
            "A2: view-based release/acquire memory model without promises/load-buffering; system calls and process start synchronise fully",
            "A4: exhaustive only for the stated constants; beyond that random schedules + trace validation",
            "simulated process death = unwinding the writer thread at a hook point (the mapping is dropped, the file stays)"]


# ------------------------------------------------------------------------------------------ C02
@register("C02")
def c02(tier, seed):
    rep = Report("C02", tier, seed, "model_checking")
    rep.assumptions = common_assumptions()
    rep.rule = "behaviours = maximal paths of the TLC transition cover + seeded random schedules; distinct by content hash"
    run = SegRun(rep)
    wprog, rprog, xdrift, raw = extract_programs()
    rep.extra["extracted_programs"] = {"writer": wprog, "reader": rprog}
    rep.sample({"write()": raw["write"], "snapshot() accept path": raw["snapshot_accept"]})
    if xdrift:
        run.drifts.append(xdrift)
    cf = base_cfgs(tier)
    # MC: SC, all interleavings
    r = mc(rep, "c02_sc2", cf["sc2"], wprog, rprog, ["TypeOK", "NoTorn", "NoTornCache"])
    if r.violated:
        raise ToolError(f"ShmSeg violates {r.violated} under SC: the specification itself is broken")
    # MC: RA with the extracted programs (+ cover for the O2 replay)
    bra, r, _, _ = cover(rep, "c02_ra1", cf["ra1"], wprog, rprog, invariants=("NoTorn", "NoTornCache", "Monotone"))
    pending = None
    if r.violated:
        res = run.replay(bra, True, f"TLC counterexample to {r.violated} under release/acquire with the code's orderings {wprog} / {rprog}, replayed on the real snapshot() with the stale values served")
        if not res["violations"]:
            # not a verdict by itself; the other explorations of the real code still run, and only if none of them
            # observes a violation either is this reported (as a tool error: model and code disagree)
            pending = f"model violates {r.violated} under RA but the counterexample does not reproduce on the real code: {res['drifts'][:1]}"
    else:
        run.replay(bra, True, "RA cover", limit=12000 if tier == "quick" else None)
        if tier == "thorough":
            r2 = mc(rep, "c02_ra2", cf["ra2"], wprog, rprog, ["NoTorn", "NoTornCache", "Monotone"], workers=10, timeout=2400)
            if r2.violated:
                rep.violation("ra-reordering-two-readers", f"{r2.violated} violated under RA with two readers", {"kind": "tlc", "trace": r2.trace_text()[-4000:]})
    # R: SC covers
    for name in (["rp_warm", "rp_two"] if tier == "quick" else ["rp_warm", "rp_two", "rp_cold"]):
        b, r, _, _ = cover(rep, name, cf[name], wprog, rprog)
        if r.violated:
            raise ToolError(f"ShmSeg violates {r.violated} in cover {name}")
        run.replay(b, False, f"SC cover {name}")
    # T: random schedules
    run.explore(seed, 30 if tier == "quick" else 400, 400 if tier == "quick" else 600, wprog, rprog, what="random schedules (W=7, 3 readers)", controls=True)
    seq_induction(rep)
    seg_refines(rep, tier, wprog, rprog)
    unhooked_stress(run, 2 if tier == "quick" else 20)
    if tier == "thorough":
        # the known finding, in the model: with a small modulus TLC finds the in-call wrap by itself
        cw = dict(sc=True, genmod=8, retry=2, readers="R1", maxpub=8, maxcrash=0, maxinc=1, maxcalls=1, files="SFone")
        rw = mc(rep, "c02_wrap_finding", cw, wprog, rprog, ["NoTorn"])
        rep.notes.append(f"model of the known finding (GenMod=8): NoTorn {'violated as expected' if rw.violated else 'NOT violated (unexpected)'}")
    # the known corner of a 16-bit sequence lock
    res = seg_json(["wrap"] + ([] if tier == "thorough" else ["--only", "incall"]), timeout=600)
    run.take(res, "reader suspended inside one snapshot() across n publications", "wrap")
    rep.notes.append(f"wrap: {[(c['mode'], c['publications_in_between'], c['result']) for c in res['cases']]}")
    for b in glob_samples(cf, rep):
        pass
    if pending and not rep.violations:
        raise ToolError(pending)
    return run.finish()


def glob_samples(cf, rep):
    # first behaviours of a cached cover as written-out samples
    cdir = cb.CACHE
    for f in sorted(os.listdir(cdir)) if os.path.isdir(cdir) else []:
        if f.startswith("rp_warm") and f.endswith(".ndjson"):
            with open(os.path.join(cdir, f)) as g:
                for i, line in enumerate(g):
                    if i >= 2:
                        break
                    b = json.loads(line)
                    rep.sample([f"{s['a']}/{s['p']}" + (f"={s['v']}" if s['v'] else "") for s in b["steps"]])
                    rep.distinct.add(hashlib.sha1(line.encode()).hexdigest())
            # count distinct behaviours
            with open(os.path.join(cdir, f)) as g:
                for line in g:
                    rep.distinct.add(hashlib.sha1(line.encode()).hexdigest())
    return []


# ------------------------------------------------------------------------------------------ C03
@register("C03")
def c03(tier, seed):
    rep = Report("C03", tier, seed, "model_checking")
    rep.assumptions = common_assumptions() + ["CatchUp is stated for sequentially consistent memory (a stale generation load is allowed by RA)"]
    rep.rule = "behaviours = maximal paths of the TLC transition cover + seeded random schedules + bulk wrap scenarios; distinct by content hash"
    run = SegRun(rep)
    wprog, rprog, xdrift, raw = extract_programs()
    if xdrift:
        run.drifts.append(xdrift)
    cf = base_cfgs(tier)
    r = mc(rep, "c03_sc2", cf["sc2"], wprog, rprog, ["TypeOK", "Monotone", "CatchUp"], properties=["FreshIsLatest"])
    if r.violated:
        raise ToolError(f"ShmSeg violates {r.violated} under SC")
    # wrap: small modulus so that the generation repeats within the bound; the documented coincidence is
    # needed (CatchUp's exception is taken) and only ever taken at a multiple of the period
    # (no publication while a call is in progress: the in-call wrap is the known finding of C02)
    cw = dict(sc=True, genmod=8, retry=2, readers="R1", maxpub=8, maxcrash=0, maxinc=1, maxcalls=3, files="SFone", constraint="NoPubDuringCall")
    r = mc(rep, "c03_wrap", cw, wprog, rprog, ["Monotone", "CatchUp", "CoincidenceOnlyAtPeriod", "GenProtocol"])
    if r.violated:
        raise ToolError(f"ShmSeg violates {r.violated} in the wrap configuration")
    # Monotone also under RA
    bra, r, _, _ = cover(rep, "c02_ra1", cf["ra1"], wprog, rprog, invariants=("NoTorn", "NoTornCache", "Monotone"))
    if r.violated == "Monotone":
        res = run.replay(bra, True, "TLC counterexample to Monotone under release/acquire replayed on the real code")
        if not res["violations"]:
            raise ToolError("model violates Monotone under RA but the counterexample does not reproduce")
    for name in (["rp_warm", "rp_two"] if tier == "quick" else ["rp_warm", "rp_two", "rp_cold"]):
        b, r, _, _ = cover(rep, name, cf[name], wprog, rprog)
        run.replay(b, False, f"SC cover {name}")
    res = seg_json(["wrap"] + ([] if tier == "thorough" else ["--only", "idle"]), timeout=600)
    run.take(res, "reader idle across n publications (n around the period 32767)", "wrap")
    ew = seg_json(["extwipe"], timeout=300)
    run.take(ew, "attached reader across an externally damaged segment and its re-initialisation", "extwipe")
    rep.evaluations += len(ew["cases"])
    rep.notes.append(f"wrap: {[(c['mode'], c['publications_in_between'], c['result']) for c in res['cases']]}")
    rep.sample({"idle-reader wrap cases": [(c['mode'], c['publications_in_between'], c['result']) for c in res['cases']]})
    seq_induction(rep)
    seg_refines(rep, tier, wprog, rprog)
    unhooked_stress(run, 2 if tier == "quick" else 20)
    run.explore(seed, 30 if tier == "quick" else 400, 400 if tier == "quick" else 600, wprog, rprog, what="random schedules (W=7, 3 readers)")
    glob_samples(cf, rep)
    return run.finish()


# ------------------------------------------------------------------------------------------ C04
@register("C04")
def c04(tier, seed):
    rep = Report("C04", tier, seed, "model_checking")
    rep.assumptions = common_assumptions()
    rep.rule = "behaviours = maximal paths of TLC transition covers with a writer death at every pc (crash-point enumeration) + seeded crash storms; distinct by content hash"
    run = SegRun(rep)
    wprog, rprog, xdrift, raw = extract_programs()
    if xdrift:
        run.drifts.append(xdrift)
    cf = base_cfgs(tier)
    q = tier == "quick"
    cc = dict(sc=True, retry=2, readers="R2" if not q else "R1", maxpub=3, maxcrash=2, maxinc=3, maxcalls=2, files="SFall")
    r = mc(rep, "c04_crash", cc, wprog, rprog, ["TypeOK", "NoTorn", "NoTornCache", "Monotone", "CatchUp", "InPlace", "NoReaderDuringWipe", "Repair", "GenProtocol"],
           properties=["GenChanges", "GenNeverBackToZero"], workers=10, timeout=3000)
    if r.violated:
        raise ToolError(f"ShmSeg violates {r.violated} with crashes")
    for name in ["rp_cold", "rp_warm"]:
        b, r, _, _ = cover(rep, name, cf[name], wprog, rprog)
        run.replay(b, False, f"crash-point cover {name}")
    ew = seg_json(["extwipe"], timeout=300)
    run.take(ew, "attached reader across an externally damaged segment and its re-initialisation", "extwipe")
    rep.evaluations += len(ew["cases"])
    # death at every step of the (re-)initialisation of unusable leftover files that look almost like a segment
    hw = seg_json(["halfwipe"], timeout=300)
    if hw["errors"]:
        raise ToolError(f"seg halfwipe: {hw['errors'][:2]}")
    run.take(hw, "daemon death at every step of re-initialising an unusable leftover file, restart, clients", "halfwipe")
    rep.evaluations += hw["cases"]
    rep.traces += hw["cases"] - len(hw["violations"])
    rep.notes.append(f"halfwipe: {hw['cases']} cases (3 leftover files x death after 0..14 steps of ShmWriter::new), {len(hw['violations'])} with violations")
    run.explore(seed, 40 if q else 500, 400 if q else 600, wprog, rprog, crash_pct=8, what="crash/restart storms (W=7, 3 readers)")
    glob_samples(cf, rep)
    return run.finish()


# ------------------------------------------------------------------------------------------ C11
@register("C11")
def c11(tier, seed):
    rep = Report("C11", tier, seed, "model_checking")
    rep.assumptions = common_assumptions()[2:] + ["generation observed as the bytes 14..16 of the backing file (what a third-party reader maps)"]
    rep.rule = "one case per start generation (all 65535 non-zero values on the real write(), a stratified subset in the quick TLC run); distinct by start value"
    run = SegRun(rep)
    wprog, rprog, xdrift, raw = extract_programs()
    if xdrift:
        run.drifts.append(xdrift)
    cf = base_cfgs(tier)
    # MC: every start generation (thorough) / stratified (quick); update, crash after the odd store + re-entry, two updates
    if tier == "quick":
        gens = "(0..400) \\cup (32700..32800) \\cup (65300..65535) \\cup {2^i : i \\in 1..15} \\cup {2^i - 1 : i \\in 1..15} \\cup {2^i + 1 : i \\in 1..15}"
    else:
        gens = "0..65535"
    extra = (f"GenStart == {gens}\n"
             "SFgen == { IF g = 0 THEN SFwiped ELSE IF g % 2 = 0 THEN File(TRUE, 72, TRUE, 72, 1, g, Full(1), 1, 1)\n"
             "                                   ELSE File(TRUE, 72, TRUE, 72, 1, g, Mixed(2, 1), 1, 2) : g \\in GenStart }\n"
             "R0 == {}\n")
    cg = dict(sc=True, retry=2, readers="R0", maxpub=4, maxcrash=1, maxinc=2, maxcalls=0, files="SFgen")
    r = mc(rep, "c11_gen", cg, wprog, rprog, ["GenProtocol", "Repair"], properties=["GenChanges", "GenNeverBackToZero"], workers=10, timeout=3000, extra=extra)
    if r.violated:
        raise ToolError(f"ShmSeg violates {r.violated} in the generation sweep")
    rep.exhaustive = tier == "thorough"
    # unbounded number of publications / crashes / restarts: GenProtocol as an inductive invariant (Apalache)
    apa = cb.workdir("apa_C11")
    for what, extra in (("initial state satisfies IndInv", ["--init=Init", "--length=0"]), ("IndInv is inductive over every action", ["--init=IndInit", "--length=1"])):
        p = cb.run(["timeout", "400", "apalache-mc", "check", "--inv=IndInv", f"--out-dir={apa}", f"--run-dir={apa}/run"] + extra + [os.path.join(cb.SPEC, "GenInd.tla")], timeout=450)
        if "The outcome is: NoError" not in p.stdout + p.stderr:
            raise ToolError(f"Apalache: GenInd {what} failed:\n{(p.stdout + p.stderr)[-1500:]}")
        rep.notes.append(f"Apalache (GenInd.tla, all 65536 generation values symbolic, unbounded behaviours): {what}")
    rep.extra["symbolic_obligations"] = 2
    import shutil
    d = os.path.join(apa, "tlaps")
    os.makedirs(d, exist_ok=True)
    for f in ("GenInd.tla", "GenIndProof.tla"):
        shutil.copy(os.path.join(cb.SPEC, f), d)
    p = cb.run(["timeout", "900", "tlapm", "--threads", "8", "--cleanfp", "GenIndProof.tla"], cwd=d, timeout=950)
    m = re.search(r"All (\d+) obligations proved", p.stdout + p.stderr)
    if not m:
        raise ToolError("tlapm: GenIndProof.tla is not proved:\n" + (p.stdout + p.stderr)[-1500:])
    rep.notes.append(f"TLAPS (GenIndProof.tla): Spec => []GenProtocol for all 65536 values, all {m.group(1)} obligations proved ({p.wall:.0f}s)")
    rep.extra["symbolic_obligations"] += int(m.group(1))
    shutil.rmtree(apa, ignore_errors=True)
    # real write() from every start value
    res = seg_json(["gensweep"], timeout=900)
    rep.evaluations += res["evaluations"]
    for i in range(res["evaluations"]):
        pass
    rep.extra["gensweep_start_values"] = res["evaluations"]
    rep.notes.append(f"gensweep: real write() twice from each of {res['evaluations']} start generations; rows {res['rows'][:2]} ... {res['rows'][-2:]}")
    rep.sample({"real write() from start generation": res["rows"][:3] + res["rows"][-3:]})
    for b in res["bad"]:
        rep.violation("gensweep", f"real write() from generation {b['start']}: {'; '.join(b['why'])}", {"kind": "gensweep", "case": b})
    rep.traces += res["evaluations"] - len(res["bad"])
    for name in ["rp_warm"] + ([] if tier == "quick" else ["rp_cold"]):
        b, r, _, _ = cover(rep, name, cf[name], wprog, rprog)
        run.replay(b, False, f"SC cover {name}")
    run.explore(seed, 20 if tier == "quick" else 300, 400, wprog, rprog, crash_pct=6, what="random schedules with crashes")
    glob_samples(cf, rep)
    for i in range(1, res["evaluations"] + 1):
        rep.distinct.add(("gen", i))
    return run.finish()


# ------------------------------------------------------------------------------------------ C18
@register("C18")
def c18(tier, seed):
    rep = Report("C18", tier, seed, "model_checking")
    rep.assumptions = common_assumptions() + ["a hang is detected by a budget of shared accesses per call (60M), never by wall clock"]
    rep.rule = "stalled-writer matrix (writer stopped after k accesses of write() x reader lead x cache state) + transition cover + random schedules with 10^6-iteration spins; distinct by case"
    run = SegRun(rep)
    wprog, rprog, xdrift, raw = extract_programs()
    if xdrift:
        run.drifts.append(xdrift)
    cf = base_cfgs(tier)
    for retry in ([2] if tier == "quick" else [1, 2, 3]):
        c = dict(cf["sc2"], retry=retry)
        r = mc(rep, f"c18_sc2_r{retry}", c, wprog, rprog, ["Bounded", "NeverBlocked"])
        if r.violated:
            raise ToolError(f"ShmSeg violates {r.violated}")
    # liveness: fairness for reader steps only; the writer may stall or die anywhere, or publish forever
    cl = dict(sc=True, retry=2, readers="R1", maxpub=3, maxcrash=1, maxinc=2, maxcalls=2, files="SFra")
    r = mc(rep, "c18_live", cl, wprog, rprog, [], properties=["Terminates"], spec="LiveSpec", workers=4)
    if r.violated:
        raise ToolError("ShmSeg violates Terminates")
    res = seg_json(["stall"], timeout=900)
    run.take(res, "reader against a writer stalled at every point of write()", "stall")
    rep.evaluations += res["cases"]
    rep.traces += res["cases"] - len(res["violations"])
    rep.notes.append(f"stall: {res['cases']} cases, max {res['max_accesses']} shared accesses in one call (bound {res['bound']})")
    for s in res["samples"]:
        rep.sample(s)
    for i in range(res["cases"]):
        rep.distinct.add(("stall", i))
    # the opposite extreme: a writer that never stops (a completed update before every load of one call)
    resb = seg_json(["busy"], timeout=600)
    run.take(resb, "reader against a writer that completes an update before every load of the call", "busy")
    rep.evaluations += len(resb["cases"])
    rep.traces += len(resb["cases"]) - len(resb["violations"])
    rep.notes.append(f"busy writer: {[(c['reader'], c['loads_in_one_call'], c['result']) for c in resb['cases']]}")
    for c in resb["cases"]:
        rep.distinct.add(("busy", c["reader"]))
    b, r, _, _ = cover(rep, "rp_warm", cf["rp_warm"], wprog, rprog)
    run.replay(b, False, "SC cover rp_warm")
    run.explore(seed, 30 if tier == "quick" else 300, 400, wprog, rprog, crash_pct=10, what="random schedules with stalled/dead writers and spins")
    glob_samples(cf, rep)
    return run.finish()


# ------------------------------------------------------------------------------------------ replay of a recorded violation
def replay_file(pid, obj):
    rp = obj["replay"]
    kind = rp.get("kind")
    if kind in ("replay-sc", "replay-ra"):
        case = rp["case"]
        tmp = os.path.join(cb.WORK, "replay_one.ndjson")
        os.makedirs(cb.WORK, exist_ok=True)
        with open(tmp, "w") as f:
            f.write(json.dumps({"n": 0, "steps": case["steps"]}) + "\n")
        res = seg_json(["replay", tmp] + (["--ra"] if kind == "replay-ra" else []))
        print(json.dumps(res["violations"], indent=1)[:4000])
        for v in res["violations"]:
            for x in v["violations"]:
                if x["property"] in PROPSETS.get(pid, {pid}):
                    print(f"VIOLATION property={pid} replay={tmp}")
                    return 1
        return 0
    print(json.dumps(rp, indent=1)[:4000])
    print("this replay kind is re-executed by running the check itself", file=sys.stderr)
    return 2


import sys  # noqa: E402
