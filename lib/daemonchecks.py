"""Checks decided on the Daemon block: C07 C08 C09 C10 C13 C19."""
import os, json, re, time, random, hashlib
from concurrent.futures import ThreadPoolExecutor
import cb
from cb import ToolError, Report, log
from checks import register, Drift, ConformanceDrift
from filechecks import bad_ids, checked, line_by_id


def daemon_bin():
    d = cb.build_harness()
    return os.path.join(d, "daemon")


def djson(args, timeout=900):
    p = cb.run([daemon_bin()] + args, timeout=timeout)
    if p.returncode != 0 or not p.stdout.strip():
        raise ToolError(f"daemon {' '.join(args)[:100]} failed rc={p.returncode}: {p.stderr[-2000:]}")
    return json.loads(p.stdout.strip().splitlines()[-1])


# ------------------------------------------------------------------------------------------ Daemon MC / cover
def daemon_cfg(name, spec, c, invariants, properties=(), view=None):
    t = [f"SPECIFICATION {spec}", "CONSTANTS", " GRACE = 5", " VOID = 1000", f" Deltas <- {c['deltas']}", f" Bounds <- {c['bounds']}",
         f" Reports <- {c['reports']}", " PhcBounds <- PhcQ", f" PhcConfigured = {'TRUE' if c['phc'] else 'FALSE'}", " Drift = 50000",
         f" MaxPolls = {c['polls']}", f" MaxTicks = {c['ticks']}", f" MaxStarts = {c['starts']}", f" PreSyncPolicy = \"{c.get('policy', 'latch')}\""]
    if view:
        t.append(f"VIEW {view}")
    if invariants:
        t.append("INVARIANTS " + " ".join(invariants))
    if properties:
        t.append("PROPERTIES " + " ".join(properties))
    t.append("CHECK_DEADLOCK FALSE")
    return cb.write_cfg(name + ".cfg", "\n".join(t) + "\n")


INV = ["TypeOK", "Tracks", "NoTrustBeforeMeasure", "PhcRule", "AsOfBeforeReply"]
PROPS = ["EveryOutcomePublishes", "GraceSchedule"]


def daemon_mc(rep, name, c, invariants=INV, properties=PROPS, timeout=1200, workers=8):
    cfg = daemon_cfg("D_" + name, "Spec", c, invariants, properties)
    r = cb.tlc("MC_daemon", cfg, "D_" + name, workers=workers, timeout=timeout)
    rep.add_tlc(r, f"TLC Daemon {name} (polls {c['polls']}, ticks {c['ticks']} of {c['deltas']}, starts {c['starts']}, PHC {c['phc']}, policy {c.get('policy', 'latch')})")
    return r


def daemon_cover(rep, name, c):
    import segchecks
    h = segchecks.spec_hash()
    h.update(json.dumps(c, sort_keys=True).encode())
    key = h.hexdigest()[:16]
    cdir = cb.CACHE
    os.makedirs(cdir, exist_ok=True)
    bfile = os.path.join(cdir, f"d_{name}_{key}.ndjson")
    meta = bfile + ".json"
    if os.path.exists(bfile) and os.path.exists(meta):
        m = json.load(open(meta))
        r = cb.TlcResult("", 0, 0.0)
        r.distinct, r.generated, r.depth, r.ok = m["distinct"], m["generated"], m["depth"], True
        rep.add_tlc(r, f"TLC Daemon cover {name} (cached)")
        os.utime(bfile)
        return bfile, m["behaviours"]
    cfg = daemon_cfg("DR_" + name, "RSpec", c, ["Tracks", "NoTrustBeforeMeasure", "PhcRule"], view="ViewNoSid")
    out = os.path.join(cb.WORK, f"DR_{name}.out")
    r = cb.tlc("DaemonReplay", cfg, "DR_" + name, workers=1, timeout=1200, keep_out=out)
    if r.violated:
        raise ToolError(f"Daemon violates {r.violated} in cover {name}")
    edges = cb.edges_from_output(open(out).read())
    os.remove(out)
    behs = cb.behaviours_from_edges(edges)
    cb.write_behaviours(bfile, behs, {"cfg": name, "consts": {"PhcConfigured": c["phc"], "Drift": 50000}})
    cb.write_json_atomic(meta, {"distinct": r.distinct, "generated": r.generated, "depth": r.depth, "behaviours": len(behs)})
    rep.add_tlc(r, f"TLC Daemon cover {name}: {len(edges)} transitions, {len(behs)} maximal paths")
    cb.prune_cache(cdir, "d_" + name)
    return bfile, len(behs)


def replay_control(rep, bfile):
    """The lock-step binding is not vacuous: one behaviour of the cover with ONE expected published bound altered must
    be reported by the harness (the real updater does not publish the altered value)."""
    with open(bfile) as f:
        for line in f:
            b = json.loads(line)
            idx = [i for i, st in enumerate(b["steps"]) if st.get("a") == "UpdRecv" and st.get("exp", {}).get("measured") and st["exp"].get("pub", {}).get("bound", 0) > 0]
            if not idx:
                continue
            b["steps"][idx[0]]["exp"]["pub"]["bound"] += 1
            p = os.path.join(cb.WORK, f"dctl_{rep.pid}.ndjson")
            open(p, "w").write(json.dumps(b) + "\n")
            res = djson(["replay", p])
            os.remove(p)
            if not res["violations"]:
                raise ToolError("replay control: a behaviour whose expected published bound was altered by 1 ns replayed without complaint")
            rep.notes.append("replay control: a behaviour of the cover with one expected published bound altered by 1 ns is reported by the harness, as it must")
            return
    raise ToolError("replay control: no behaviour with a measured publication in the cover")


def daemon_replay(rep, bfile, props, what, chunk=600, procs=8):
    lines = open(bfile).read().splitlines()
    cdir = cb.workdir(f"dchunks_{rep.pid}")
    files = []
    for i in range(0, len(lines), chunk):
        p = os.path.join(cdir, f"c{i}.ndjson")
        open(p, "w").write("\n".join(lines[i:i + chunk]) + "\n")
        files.append(p)
    t0 = time.time()
    with ThreadPoolExecutor(max_workers=procs) as ex:
        parts = list(ex.map(lambda p: djson(["replay", p, "--stop-on", ",".join(sorted(props))]), files))
    import shutil
    shutil.rmtree(cdir, ignore_errors=True)
    res = {"behaviours": 0, "steps": 0, "comparisons": 0, "violations": [], "drifts": []}
    for part in parts:
        for k in ("behaviours", "steps", "comparisons"):
            res[k] += part[k]
        res["violations"] += part["violations"]
        res["drifts"] += part["drifts"]
    rep.evaluations += res["behaviours"]
    rep.traces += res["behaviours"] - len(res["violations"]) - len(res["drifts"])
    rep.notes.append(f"{what}: {res['behaviours']} behaviours / {res['steps']} steps through the real poller iteration, updater and segment, {res['comparisons']} comparisons, {len(res['violations'])} with violations, {len(res['drifts'])} drifts, {time.time() - t0:.1f}s")
    foreign, drifts = [], []
    for v in res["violations"]:
        for x in v["violations"]:
            if x["property"] in props:
                rep.violation(x["signature"] if x["property"] == rep.pid else f"{x['property']}:{x['signature']}", f"{what}: {x['what']}", {"kind": "daemon-replay", "case": v})
            else:
                foreign.append(f"{x['property']}/{x['signature']}: {x['what']}")
    for f in sorted(set(foreign))[:4]:
        log(f"  note: also observed (reported by its own check): {f}")
    for d in res["drifts"]:
        drifts.append(f"behaviour {d['behaviour']}: {d['drift']}")
    with open(bfile) as f:
        for i, line in enumerate(f):
            rep.distinct.add(hashlib.sha1(line.encode()).hexdigest())
            if i < 2:
                b = json.loads(line)
                rep.sample([f"{s['a']}" + (f"={json.dumps(s['v'])}" if s['v'] else "") for s in b["steps"]][:14])
    return drifts


COVERS = {
    "phc": dict(deltas="DeltasQ", bounds="BoundsR", reports="RepR", phc=True, polls=2, ticks=1, starts=1),
    "nophc": dict(deltas="DeltasQ", bounds="BoundsR", reports="RepR", phc=False, polls=2, ticks=1, starts=2),
    "nophc_t": dict(deltas="DeltasQ", bounds="BoundsR", reports="RepR", phc=False, polls=2, ticks=2, starts=2),
    # three outcomes in a row (status must depend on the latest outcome only), no delays
    "seq3": dict(deltas="DeltasQ", bounds="BoundsR", reports="RepR", phc=False, polls=3, ticks=0, starts=1),
}
MCQ = dict(deltas="DeltasQ", bounds="BoundsQ", reports="RepQ", phc=True, polls=3, ticks=2, starts=2)
MCT = dict(deltas="DeltasT", bounds="BoundsQ", reports="RepQ", phc=True, polls=3, ticks=2, starts=2)   # ticks=3 with six deltas: > 3*10^8 states


def daemon_common(pid, tier, seed, props, level="model_checking", extra=None):
    rep = Report(pid, tier, seed, level)
    rep.assumptions = ["time in the model is whole seconds; the replay maps second s to the virtual monotonic instant (base + s) s + 123456789 ns, base = 5000, 7 or 600 s of uptime depending on the behaviour",
                       "classification of reports is replayed with reference times >= 1 s away from the 8-interval threshold (real system clock in ref_time.elapsed())",
                       "A4: exhaustive for <= 3 polls, <= 2-3 scheduling delays from {1,4,5(,6,994,1000)} s, <= 2 starts, 9 representative reports"]
    rep.rule = "behaviours = maximal paths of the TLC transition cover of Daemon.tla (every poll outcome x PHC outcome x delay position); distinct by content hash"
    r = daemon_mc(rep, "q" if tier == "quick" else "t", MCQ if tier == "quick" else MCT, timeout=3000)
    if r.violated:
        raise ToolError(f"Daemon.tla violates {r.violated}")
    r = daemon_mc(rep, "nophc", dict(MCQ, phc=False))
    if r.violated:
        raise ToolError(f"Daemon.tla violates {r.violated} (no PHC)")
    drifts = []
    for name in (("phc", "nophc", "seq3") if tier == "quick" else ("phc", "nophc_t", "seq3")):
        b, n = daemon_cover(rep, name, COVERS[name])
        drifts += daemon_replay(rep, b, props, f"Daemon cover {name}")
        if pid == "C08" and name == "nophc":
            replay_control(rep, b)
    if extra:
        extra(rep)
    rc = rep.finish()
    if rc == 0 and drifts:
        raise ConformanceDrift("; ".join(drifts[:3]))
    return rc


# ------------------------------------------------------------------------------------------ C08 / C09
@register("C08")
def c08(tier, seed):
    return daemon_common("C08", tier, seed, {"C08"}, extra=lambda rep: whole_runs(rep, tier, WHOLE_PROPS["C08"]))


@register("C09")
def c09(tier, seed):
    def extra(rep):
        # single reports through a fresh updater: anything the specification does not class Synchronized publishes Unknown
        out = os.path.join(cb.WORK, "cls_C09.ndjson")
        res = djson(["class", "--out", out], timeout=900)
        r = cb.tlc("ClassTable", "ClassTable.cfg", "cls_C09", workers=1, timeout=900, env={"CLS": out})
        bad = bad_ids(r.out, "BADPUB0")
        rep.evaluations += res["rows"]
        rep.notes.append(f"class table through a fresh updater: {res['rows']} rows, {len(bad)} publishing trust without a measurement")
        for i in bad[:3]:
            v = line_by_id(out, i)
            rep.violation("trust-before-first-measurement", f"first report after start (leap {v.get('leap')}, reference time {v.get('pos')}, interval {v.get('interval')} s) is not synchronised by specification, yet status {v.get('pub0')} was published", {"kind": "class", "row": v})
        os.remove(out)
        # the pinned behaviour, in the model: with the FSM status published as is, TLC finds the counterexample
        r = daemon_mc(rep, "presync_fsm", dict(MCQ, policy="fsm", polls=2, ticks=1, starts=1), invariants=["NoTrustBeforeMeasure"], properties=())
        rep.notes.append(f"model with PreSyncPolicy = fsm (publish whatever the FSM holds): NoTrustBeforeMeasure {'violated as expected' if r.violated else 'NOT violated (unexpected)'}")
        whole_runs(rep, tier, WHOLE_PROPS["C09"])
    return daemon_common("C09", tier, seed, {"C09"}, extra=extra)


# ------------------------------------------------------------------------------------------ C13
@register("C13")
def c13(tier, seed):
    def extra(rep):
        res = djson(["grace"], timeout=300)
        n = len(res["scenarios"])
        rep.evaluations += n
        rep.traces += n - len({v["what"].split(":")[0] for v in res["violations"]})
        rep.notes.append(f"grace (real ClockErrorBoundPoller grace logic, real time): {n} scenarios; a fresh poller is within grace: {res['fresh_poller_within_grace']}")
        for s in res["scenarios"][:2]:
            rep.sample({"scenario": s["scenario"], "timeline": s["rows"]})
        if res["fresh_poller_within_grace"]:
            rep.violation("fresh-poller-within-grace", "a freshly created poller reports itself within the grace period although chronyd never answered", {"kind": "grace"})
        for v in res["violations"][:5]:
            rep.violation(v["signature"], v["what"], {"kind": "grace", "scenarios": [s for s in res["scenarios"] if s["violations"]]})
        rr = djson(["refid"], timeout=120)
        rep.evaluations += len(rr["rows"])
        rep.traces += len(rr["rows"]) - len(rr["violations"])
        rep.notes.append(f"refid: {len(rr['rows'])} (configured id string through the CLI parser, reported id) pairs through the real poller iteration")
        for v in rr["violations"][:3]:
            rep.violation(v["signature"], v["what"], {"kind": "refid", "rows": rr["rows"]})
    def extra2(rep):
        extra(rep)
        timelines(rep, tier)
        whole_runs(rep, tier, WHOLE_PROPS["C13"])
    return daemon_common("C13", tier, seed, {"C13"}, extra=extra2)


def timelines(rep, tier):
    """The real release binary against a scripted fake chronyd in a private /run; status timeline judged by Timeline.tla."""
    binary = build_release_daemon()
    fake = os.path.join(cb.build_harness(), "fakechrony")
    scripts = [("outage-recover-hang", "answer:3,gone:8,answer:2,silent:11", 25),
               ("startup-silence-then-unsync", "silent:7,answer:3,leap3:3,gone:7", 21),
               ("useless-replies", "badreply:7,answer:2,badreply:12", 22)]
    if tier == "thorough":
        scripts += [("long-hang", "answer:2,silent:16,answer:3", 22), ("flapping", "answer:2,gone:3,answer:2,gone:6,answer:2", 16),
                    ("never-there", "gone:9", 9), ("unsync-only", "leap3:6,gone:7", 14)]

    def one(x):
        name, script, secs = x
        out = os.path.join(cb.WORK, f"tl_{name}.json")
        if os.path.exists(out):
            os.remove(out)
        p = cb.run(["unshare", "-m", os.path.join(cb.ROOT, "bin", "ns_timeline.sh"), binary, fake, script, str(secs), out], timeout=secs + 60)
        if not os.path.exists(out):
            raise ToolError(f"timeline run failed (needs root + unshare -m): {p.stderr[-500:]}")
        d = json.load(open(out))
        os.remove(out)
        if "error" in d:
            raise ToolError(f"timeline run: {d}")
        return name, script, secs, d
    with ThreadPoolExecutor(max_workers=6) as ex:
        runs = list(ex.map(one, scripts))
    tml = os.path.join(cb.WORK, "tml_C13.ndjson")
    with open(tml, "w") as f:
        for i, (name, script, secs, d) in enumerate(runs):
            ans = [{"t_ms": x["t_ms"] + 200, "sync": x["mode"] == "answer"} for x in d["fake"] if x["ev"] == "answered"]
            f.write(json.dumps({"id": i, "samples": [{"t_ms": s["t_ms"], "status": s["status"]} for s in d["samples"]], "answers": ans, "end_ms": secs * 1000}) + "\n")
    r = cb.tlc("Timeline", "Timeline.cfg", "tml_C13", workers=1, timeout=300, env={"TML": tml})
    if checked(r.out) != len(runs):
        raise ToolError(f"Timeline oracle evaluated {checked(r.out)} of {len(runs)} runs: {r.out[-800:]}")
    bad = bad_ids(r.out, "BADTIMELINE")
    rep.evaluations += len(runs)
    rep.traces += len(runs) - len(bad)
    rep.notes.append(f"whole process: {len(runs)} runs of the real release binary against a scripted fake chronyd, status timeline judged by Timeline.tla")
    for i, (name, script, secs, d) in enumerate(runs):
        if i == 0:
            rep.sample({"script": script, "status_timeline": [(s["t_ms"], s["status"]) for s in d["samples"]]})
        if not d["daemon_alive"]:
            rep.violation("daemon-died", f"timeline '{name}': the daemon exited during the run", {"kind": "timeline", "run": d})
        if i in bad:
            rep.violation("status-timeline", f"timeline '{name}' ({script}): observed statuses {[(s['t_ms'], s['status']) for s in d['samples']]} with answers at {[a['t_ms'] for a in d['fake'] if a['ev'] == 'answered']} ms violate the grace schedule", {"kind": "timeline", "name": name, "script": script, "run": d})
    os.remove(tml)


# ------------------------------------------------------------------------------------------ whole process, values
PHC0 = (80 << 24) | (72 << 16) | (67 << 8) | 48

WHOLE = [
    # name, chrony script, seconds, phc schedule, fake args, daemon args, drift ppb, phc configured, refmatch
    ("plain-outage", "answer:6,gone:7,answer:4", 18, "none", "--vary --delay-ms 40", ["--max-drift-rate", "7"], 7000, False, False),
    ("phc-reference", "answer:4,silent:2,answer:4,silent:2,answer:4,silent:2,answer:3", 22, "0=4321;5=1234567890;11=rm;17=555",
     f"--vary --delay-ms 25 --hold-ref 8 --refid {PHC0}", ["-r", "PHC0", "-i", "eth9", "-m", "50"], 50000, True, True),
    ("phc-not-reference", "answer:4,silent:2,answer:4", 11, "0=4321;5=rm", "--vary", ["-r", "PHC0", "-i", "eth9"], 1000, True, False),
    # a slow answer followed by silence (chronyd restarting): the as-of instant must still precede the answered request
    ("slow-then-silent", "slowsilent:13,answer:3", 17, "none", "--vary", ["--max-drift-rate", "3"], 3000, False, False),
]
WHOLE_T = [
    ("unsync-then-sync", "leap3:4,answer:4,leap3:3,gone:7", 19, "none", "--vary --delay-ms 10", ["--max-drift-rate", "4294967"], 4294967000, False, False),
    ("phc-broken-from-start", "answer:5,silent:2,answer:4", 12, "0=rm;6=777", f"--vary --refid {PHC0}", ["-r", "PHC0", "-i", "eth9", "-m", "1"], 1000, True, True),
]


WHOLE_TAGS = {"drift": "Tracks: the drift is the configured one", "void": "Tracks: void-after = as-of + 1000 s, whole second",
              "trust": "NoTrustBeforeMeasure: place-holders with a status other than Unknown",
              "asof-late": "AsOfBeforeReply: as-of read after the request reached chronyd", "asof-early": "Tracks: as-of is not that report's reading",
              "tracking": "Tracks: not the latest usable report", "phc": "PhcRule: PHC error bound added / report used although it must not be",
              "formula": "BoundOps: not the bound of any report"}
# which tags are which property's business
WHOLE_PROPS = {"C07": {"formula", "phc"}, "C08": (set(WHOLE_TAGS) - {"asof-late"}) | {"unexercised", "daemon-died"}, "C09": {"trust"}, "C12": {"asof-late"},
               "C13": {"phc", "daemon-died"}, "C19": {"drift"}}


def limbs(x):
    v = []
    x = abs(x)
    while x > 0:
        v.append(x % 1000)
        x //= 1000
    return v


def whole_runs(rep, tier, props):
    """The real release binary, started with real command-line arguments, against the scripted fake chronyd and a fake
    sysfs PHC device in a private mount namespace; every published record judged by Whole.tla (TLC)."""
    binary = build_release_daemon()
    fake = os.path.join(cb.build_harness(), "fakechrony")
    cases = WHOLE + (WHOLE_T if tier == "thorough" else [])

    def one(x):
        name, script, secs, phc, fakeargs, dargs = x[:6]
        out = os.path.join(cb.WORK, f"wh_{rep.pid}_{name}.json")
        if os.path.exists(out):
            os.remove(out)
        p = cb.run(["unshare", "-m", os.path.join(cb.ROOT, "bin", "ns_whole.sh"), binary, fake, script, str(secs), out, phc, fakeargs, "--"] + dargs, timeout=secs + 90)
        if not os.path.exists(out):
            raise ToolError(f"whole-process run '{name}' failed (needs root + unshare -m): {p.stderr[-500:]}")
        d = json.load(open(out))
        os.remove(out)
        if "error" in d:
            raise ToolError(f"whole-process run '{name}': {d}")
        return d
    with ThreadPoolExecutor(max_workers=6) as ex:
        runs = list(ex.map(one, cases))
    whl = os.path.join(cb.WORK, f"whl_{rep.pid}.ndjson")
    recs = []
    for i, (c, d) in enumerate(zip(cases, runs)):
        name, script, secs, phc, fakeargs, dargs, drift, phc_conf, refmatch = c
        base = d["start_ns"]
        us_dn = lambda ns: (ns - base) // 1000
        us_up = lambda ns: -((base - ns) // 1000)
        answers = []
        ambiguous = False
        for a in d["fake"]:
            if a["ev"] != "answered":
                continue
            # content of the PHC file while this answer was processed: the last change before the request; a change
            # within 0.6 s after the answer makes the observation ambiguous (the schedules avoid it)
            phcv = -1
            for ch in d["phc"]:
                if ch["mono_ns"] <= a["req_ns"]:
                    phcv = -1 if ch["value"] == "rm" else int(ch["value"])
                elif ch["mono_ns"] <= a["ans_ns"] + 600_000_000:
                    ambiguous = True
            answers.append({"req_us": us_dn(a["req_ns"]), "ans_us": us_up(a["ans_ns"]), "sync": a["mode"] in ("answer", "slowsilent"), "refmatch": refmatch,
                            "phcv": phcv, "corr": a["corr"], "delay": a["delay"], "disp": a["disp"]})
        if ambiguous and phc_conf and refmatch:
            raise ToolError(f"whole-process run '{name}': a PHC file change fell next to an answer; the observation is ambiguous (loaded machine?)")
        samples = []
        for s_ in d["samples"]:
            as_ns = s_["as_of"][0] * 10**9 + s_["as_of"][1]
            samples.append({"t_us": us_up(s_["mono_ns"]), "status": s_["status"], "as_s": s_["as_of"][0], "as_n": s_["as_of"][1],
                            "asof_us": us_dn(as_ns) if as_ns else 0, "va_s": s_["void_after"][0], "va_n": s_["void_after"][1],
                            "drift": s_["drift"] if s_["drift"] < 2**31 else -1, "bound": {"n": s_["bound"] < 0, "m": limbs(s_["bound"])}})
        recs.append({"id": i, "drift": drift if drift < 2**31 else -1, "phcConfigured": phc_conf, "end_us": int(secs * 1e6), "answers": answers, "samples": samples})
    # drift values beyond TLC's 32-bit integers are compared here, literally, and passed to TLC as equal/unequal
    for r_, (c, d) in zip(recs, zip(cases, runs)):
        if c[6] >= 2**31:
            for s_, raw in zip(r_["samples"], d["samples"]):
                s_["drift"] = -1 if raw["drift"] == c[6] else -2
    with open(whl, "w") as f:
        for r_ in recs:
            f.write(json.dumps(r_) + "\n")
    r = cb.tlc("Whole", "Whole.cfg", f"whl_{rep.pid}", workers=1, timeout=600, env={"WHL": whl})
    if checked(r.out) != len(recs):
        raise ToolError(f"Whole oracle evaluated {checked(r.out)} of {len(recs)} runs: {r.out[-1200:]}")
    bad = bad_ids(r.out, "BADRUN")
    flat = r.out.replace("\n", " ")
    tagmap = {}
    for m in re.finditer(r'<<\s*"WHY",\s*(\d+),\s*\{(.*?)\},\s*(TRUE|FALSE)\s*>>', flat):
        tags = [(int(a), b) for a, b in re.findall(r'<<\s*(\d+),\s*"([a-z-]+)"\s*>>', m.group(2))]
        tagmap[int(m.group(1))] = (tags, m.group(3) == "TRUE")
    nrec = sum(len(x["samples"]) for x in recs)
    rep.evaluations += nrec
    rep.notes.append(f"whole process, values: {len(recs)} runs of the real release binary (real CLI arguments, fake chronyd with varying reports, fake sysfs PHC device), {nrec} published records judged by Whole.tla ({r.wall:.1f}s)")
    for i, (c, d) in enumerate(zip(cases, runs)):
        if i == 0:
            rep.sample({"whole_run": c[0], "script": c[1], "records": [(s_["t_ms"], s_["status"], s_["bound"], s_["drift"]) for s_ in d["samples"]][:12]})
        if not d["daemon_alive"]:
            if "daemon-died" in props:
                rep.violation("whole-daemon-died", f"whole-process run '{c[0]}': the daemon exited: {d['daemon_log_tail'][-300:]}", {"kind": "whole", "case": c, "run": d})
            continue
        if i not in bad:
            rep.traces += 1
            continue
        tags, exercised = tagmap.get(i, ([], True))
        mine = [(k, t) for k, t in tags if t in props]
        if not exercised and "unexercised" in props:
            rep.violation("whole-nothing-published", f"whole-process run '{c[0]}' ({c[1]}; daemon args {c[5]}): no measurement was ever published although chronyd gave usable answers", {"kind": "whole", "case": c, "oracle_input": recs[i], "run": d})
        if mine:
            k, t = mine[0]
            rep.violation("whole-record-" + t, f"whole-process run '{c[0]}' ({c[1]}; daemon args {c[5]}): published record {d['samples'][k - 1]} contradicts the specification ({WHOLE_TAGS[t]}); {len(mine)} such records", {"kind": "whole", "case": c, "tags": tags, "oracle_input": recs[i], "run": d})
        elif not (not exercised and "unexercised" in props):
            rep.traces += 1      # wrong in a way that is another property's business
    os.remove(whl)


# ------------------------------------------------------------------------------------------ C10
@register("C10")
def c10(tier, seed):
    rep = Report("C10", tier, seed, "model_checking")
    rep.assumptions = ["reference-time ages are placed 200 ms (and 1-2 s) on either side of the 8-interval threshold (ref_time.elapsed() reads the real system clock; a row that took more than 150 ms of real time is redone); the exact boundary (> vs >=) is not decided"]
    rep.rule = "one row per (leap status, reference-time position, update interval); all 65536 leap values in thorough, 0..300 + powers of two +-1 + 65535 in quick; distinct by (leap, position, interval)"
    out = os.path.join(cb.WORK, "cls_C10.ndjson")
    res = djson(["class", "--out", out] + (["--all"] if tier == "thorough" else []), timeout=1800)
    r = cb.tlc("ClassTable", "ClassTable.cfg", "cls_C10", workers=1, timeout=1800, env={"CLS": out})
    if checked(r.out) != res["rows"]:
        raise ToolError(f"TLC evaluated {checked(r.out)} of {res['rows']} rows: {r.out[-800:]}")
    # the statement itself is an ASSUME over all 65536 x 3 table entries
    rep.states += 65536 * 3
    rep.transitions += 65536 * 3
    rep.notes.append(f"TLC: C10Statement holds on all 65536 leap values x 3 reference-time positions of Classify; oracle evaluated on {res['rows']} rows recorded from the real code ({r.wall:.1f}s)")
    rep.exhaustive = tier == "thorough"
    rep.evaluations += res["rows"]
    bad = bad_ids(r.out, "BADCLASS")
    badpub = bad_ids(r.out, "BADPUB")
    rep.traces += res["rows"] - len(set(bad + badpub))
    for i in bad[:5]:
        v = line_by_id(out, i)
        rep.violation("classification", f"leap status {v.get('leap')}, reference time {v.get('pos')} (interval {v.get('interval')} s): extract_bound_from_tracking returned status {v.get('got')}, specification says {v.get('refPos')}-class", {"kind": "class", "row": v})
    for i in badpub[:5]:
        v = line_by_id(out, i)
        rep.violation("published-status", f"leap status {v.get('leap')}, reference time {v.get('pos')}: published statuses {v.get('pub')} from prior states U/S/F", {"kind": "class", "row": v})
    for x in res.get("seq_bad", [])[:3]:
        rep.violation("classification-depends-on-history", f"two reports with the same reference time: {x}", {"kind": "class-seq", "case": x})
    with open(out) as f:
        for i, line in enumerate(f):
            v = json.loads(line)
            rep.distinct.add((v["leap"], v["pos"], v["interval"]))
            if i in (3, 25, 1000):
                rep.sample(v)
    os.remove(out)
    return rep.finish()


# ------------------------------------------------------------------------------------------ C07
@register("C07")
def c07(tier, seed):
    rep = Report("C07", tier, seed, "exploration")
    rep.assumptions = ["A3: the code sums in f64; accepted x - x/1e15 - 1 <= bound - phc < x + 1 + x/1e15 + 1 with x the exact rational (stated in BoundFn.tla)",
                       "wire values: 25-bit coefficients, exponents -64..-8 (2^-40 s .. 2^16 s), both offset signs"]
    rep.rule = "grid over chrony's wire float format (coefficient x exponent class x sign of the offset x delay/dispersion companions x PHC value) + seeded random wire words; distinct by grid class"
    out = os.path.join(cb.WORK, "bnd_C07.ndjson")
    res = djson(["bound", "--seed", str(seed), "--n", str(1500 if tier == "quick" else 40000), "--out", out], timeout=900)
    r = cb.tlc("BoundFn", "BoundFn.cfg", "bnd_C07", workers=1, timeout=3000, env={"BND": out})
    if checked(r.out) != res["vectors"]:
        raise ToolError(f"TLC evaluated {checked(r.out)} of {res['vectors']} vectors: {r.out[-800:]}")
    rep.notes.append(f"TLC BoundFn oracle (exact dyadic arithmetic) on {res['vectors']} reports ({res['grid']} grid + random), {r.wall:.1f}s")
    rep.evaluations += res["vectors"]
    for i in range(res["classes"]):
        rep.distinct.add(i)
    bad = bad_ids(r.out, "BADBOUND")
    rep.extra["rejected_by_oracle"] = len(bad)
    neg = [line_by_id(out, i) for i in bad[:400]]
    # signature by failing input class, so that a different violation is still reported
    by_sig = {}
    for v in neg:
        sig = "negative-offset" if v.get("corr", [0])[0] < 0 else "non-negative-offset"
        by_sig.setdefault(sig, []).append(v)
    for sig, vs in by_sig.items():
        v = vs[0]
        rep.violation(sig, f"bound published for (offset {v['human']['corr_s']} s, dispersion {v['human']['disp_s']} s, delay {v['human']['delay_s']} s, PHC {v['phc']}) is {v['human']['published_bound_ns']} ns: not |offset| + dispersion + delay/2 rounded up ({len(vs)} such reports among the first rejected)", {"kind": "bound", "reports": vs[:5]})
    # the PHC term over sequences of reports: the bound of the latest synchronised report includes the PHC
    # error bound of THAT report, whatever later reports carry
    b, n = daemon_cover(rep, "phc", COVERS["phc"])
    drifts = daemon_replay(rep, b, {"C07"}, "Daemon cover phc (PHC term across report sequences)")
    rr = djson(["refid"], timeout=120)
    rep.evaluations += len(rr["rows"])
    rep.notes.append(f"refid / PHC file: {len(rr['rows'])} cases (configured id through the CLI parser vs reported id; unreadable PHC files)")
    for v in rr["violations"][:3]:
        rep.violation(v["signature"], v["what"], {"kind": "refid", "rows": rr["rows"]})
    for x in res["phc_bad"][:3]:
        rep.violation("phc-not-added", f"published bound {x['published_bound']} != extract_bound {x['extract_bound']} + PHC {x['phc']}", {"kind": "bound", "case": x})
    for x in res["status_bad"][:3]:
        rep.violation("status", f"synchronised report classified {x}", {"kind": "bound", "case": x})
    for m in re.findall(r'<<\s*"SAMPLE",\s*(\d+),\s*(<<.*?>>)\s*>>', r.out.replace("\n", " "))[:3]:
        rep.sample({"report": line_by_id(out, int(m[0])).get("human"), "spec_bound_limbs": m[1]})
    os.remove(out)
    whole_runs(rep, tier, WHOLE_PROPS["C07"])
    return rep.finish()


# ------------------------------------------------------------------------------------------ C19
def build_release_daemon():
    lk = cb.cargo_lock()
    try:
        tgt = os.path.join(cb.HARNESS, "target", "rel")
        p = cb.run(["cargo", "build", "--release", "--offline", "-p", "clock-bound-d", "--target-dir", tgt], cwd="/repo", timeout=1800)
        if p.returncode != 0:
            raise ToolError("release build of clock-bound-d failed:\n" + p.stderr[-3000:])
    finally:
        lk.close()
    return os.path.join(tgt, "release", "clockbound")


def ns_run(binary, secs, args, tag):
    out = os.path.join(cb.WORK, f"ns_{tag}.json")
    if os.path.exists(out):
        os.remove(out)
    p = cb.run(["unshare", "-m", os.path.join(cb.ROOT, "bin", "ns_daemon.sh"), binary, str(secs), out] + args, timeout=secs + 60)
    if not os.path.exists(out):
        raise ToolError(f"whole-process run failed (needs root + unshare -m): {p.stderr[-500:]}")
    d = json.load(open(out))
    os.remove(out)
    if "error" in d:
        raise ToolError(f"whole-process run: {d}")
    return d


@register("C19")
def c19(tier, seed):
    rep = Report("C19", tier, seed, "exploration")
    rep.assumptions = ["A6: whole-process runs need root and `unshare -m` (private tmpfs over /run)", "the RELEASE binary built from the working tree, unhooked",
                       "chronyd absent: the first poll fails at once and the daemon publishes its first (Unknown) record within a second"]
    rep.rule = "boundary table of --max-drift-rate values (absent, 0, 1, 50, 2^31/1000 +-1, 4294966, 4294967 = largest representable, 4294968, 2^32-1) + seeded random; one real daemon start each; distinct by value"
    binary = build_release_daemon()
    rnd = random.Random(seed)
    vals = [None, 0, 1, 50, 999999, 1000000, 2147483, 2147484, 4294966, 4294967, 4294968, 4294969, 8589934, 4294967295,
            4294967296, 18446744073709551, 18446744073709552, 18446744073709553, 2 ** 64 - 1, 2 ** 64]
    vals += [rnd.randrange(0, 4294967) for _ in range(3 if tier == "quick" else 20)] + [rnd.randrange(4294968, 2 ** 32) for _ in range(3 if tier == "quick" else 20)]
    with ThreadPoolExecutor(max_workers=12) as ex:
        runs = list(ex.map(lambda iv: ns_run(binary, 15, [] if iv[1] is None else ["--max-drift-rate", str(iv[1])], f"c19_{iv[0]}"), list(enumerate(vals))))
    out = os.path.join(cb.WORK, "drf_C19.ndjson")
    with open(out, "w") as f:
        for i, (v, d) in enumerate(zip(vals, runs)):
            f.write(json.dumps({"id": i, "given": v is not None, "ppm": limbs(v or 0), "published": d["published"], "ppb": limbs(d.get("ppb", 0)),
                                "exit_nonzero": (not d["alive_at_sample"]) and d["exit_code"] != 0}) + "\n")
    r = cb.tlc("DriftFn", "DriftFn.cfg", "drf_C19", workers=1, timeout=300, env={"DRF": out})
    if checked(r.out) != len(vals):
        raise ToolError(f"TLC evaluated {checked(r.out)} of {len(vals)} starts: {r.out[-800:]}")
    rep.notes.append(f"{len(vals)} starts of the real release binary in private /run; TLC DriftFn oracle")
    rep.evaluations += len(vals)
    bad = bad_ids(r.out, "BADDRIFT")
    for i, (v, d) in enumerate(zip(vals, runs)):
        rep.distinct.add(v)
        if i in (3, 7, 8):
            rep.sample({"--max-drift-rate": v, "published": d["published"], "max_drift_ppb": d.get("ppb"), "alive": d["alive_at_sample"], "exit_code": d["exit_code"]})
    wrapped = [(vals[i], runs[i]) for i in bad if vals[i] is not None and vals[i] > 4294967]
    other = [(vals[i], runs[i]) for i in bad if not (vals[i] is not None and vals[i] > 4294967)]
    if wrapped:
        v, d = wrapped[0]
        rep.violation("unrepresentable-rate-wrapped", f"--max-drift-rate {v}: 1000 x {v} ppb does not fit 32 bits, yet the daemon started and published max_drift_ppb = {d.get('ppb')} ({len(wrapped)} such values)", {"kind": "drift", "cases": [{"ppm": a, "run": b} for a, b in wrapped[:5]]})
    if other:
        v, d = other[0]
        rep.violation("representable-rate-wrong", f"--max-drift-rate {v}: published {d.get('ppb') if d['published'] else 'nothing'} (exit {d['exit_code']})", {"kind": "drift", "cases": [{"ppm": a, "run": b} for a, b in other[:5]]})
    os.remove(out)
    whole_runs(rep, tier, WHOLE_PROPS["C19"])
    return rep.finish()
