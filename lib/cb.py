"""Shared helpers for /verif/bin/check: running TLC/Apalache, parsing their output, turning
EDGE lines into replay behaviours, building the harness, writing evidence."""
import json, os, re, subprocess, sys, time, fcntl, shutil, hashlib

ROOT = os.path.dirname(os.path.dirname(os.path.abspath(__file__)))
SPEC = os.path.join(ROOT, "spec")
WORK_BASE = os.path.join(ROOT, ".work")
WORK = WORK_BASE                              # scratch of this check (set_work: .work/w_<property>), so that checks can run side by side
CACHE = os.path.join(WORK_BASE, "cache")      # shared: transition covers keyed by specification + extracted programs (written atomically)


def set_work(tag):
    global WORK
    WORK = os.path.join(WORK_BASE, "w_" + tag)
    os.makedirs(WORK, exist_ok=True)

HARNESS = os.path.join(ROOT, "harness")
EVID = os.path.join(ROOT, "evidence")
REPLAYS = os.path.join(ROOT, "replays")
TLA_JAR = "/opt/veriftools/tla/tla2tools.jar"


class ToolError(Exception):
    pass


def log(*a):
    print(*a, file=sys.stderr, flush=True)


def workdir(name):
    d = os.path.join(WORK, name)
    shutil.rmtree(d, ignore_errors=True)
    os.makedirs(d, exist_ok=True)
    return d


# ------------------------------------------------------------------------------------------ TLC
class TlcResult:
    def __init__(self, out, rc, wall):
        self.out, self.rc, self.wall = out, rc, wall
        m = re.findall(r"(\d+) states generated, (\d+) distinct states found", out)
        self.generated = int(m[-1][0]) if m else 0
        self.distinct = int(m[-1][1]) if m else 0
        self.ok = "Model checking completed. No error has been found." in out or (
            "Finished in" in out and "Error:" not in out and rc == 0)
        self.violated = None
        m = re.search(r"Error: Invariant (\S+) is violated", out)
        if m:
            self.violated = m.group(1)
        m = re.search(r"Error: Action property (\S+) is violated", out)
        if m:
            self.violated = m.group(1)
        if re.search(r"Error: Postcondition (\S+)", out):
            self.violated = self.violated or re.search(r"Error: Postcondition (\S+)", out).group(1)
        m = re.search(r"Error: Temporal property (\S+) was violated", out)
        if m:
            self.violated = self.violated or m.group(1)
        if "Temporal properties were violated" in out:
            self.violated = self.violated or "temporal"
        m = re.search(r"The depth of the complete state graph search is (\d+)", out)
        self.depth = int(m.group(1)) if m else 0

    def trace_text(self):
        i = self.out.find("Error:")
        return self.out[i:] if i >= 0 else ""


def gen_module(name, extends, body=""):
    """Write .work/<name>.tla extending spec modules (found through TLA-Library)."""
    os.makedirs(WORK, exist_ok=True)
    p = os.path.join(WORK, name + ".tla")
    with open(p, "w") as f:
        f.write(f"---- MODULE {name} ----\nEXTENDS {extends}\n{body}\n====\n")
    return p


def tlc(module, cfg, name, workers=8, timeout=600, extra=None, env=None, java_opts=None, cwd=SPEC, heap=None, keep_out=None):
    """Run TLC on spec/<module>.tla (or an absolute module path) with cfg. Returns TlcResult."""
    md = workdir("tlc_" + name)
    cfgp = cfg if os.path.isabs(cfg) else os.path.join(SPEC, cfg)
    if os.path.isabs(module):
        cwd = os.path.dirname(module)
        module = os.path.basename(module)[:-4] if module.endswith(".tla") else os.path.basename(module)
    java_opts = list(java_opts or []) + ["-DTLA-Library=" + SPEC]
    # java directly (not the `tlc` wrapper): -Xss must be on the command line to reach the main thread,
    # where ASSUMEs (the oracle modules) are evaluated
    jopts = [o for o in java_opts if not o.startswith("-Xss")]
    cmd = ["timeout", str(timeout), "java", "-Xss1g", "-XX:+UseParallelGC"] + ([f"-Xmx{heap}"] if heap else []) + jopts + \
          ["-cp", TLA_JAR + ":/opt/veriftools/tla/CommunityModules-deps.jar", "tlc2.TLC"]
    java_opts = None
    cmd += ["-workers", str(workers), "-metadir", md, "-cleanup", "-noGenerateSpecTE", "-config", cfgp]
    if extra:
        cmd += extra
    cmd += [os.path.join(cwd, module + ".tla")]
    e = dict(os.environ)
    if java_opts:
        e["JAVA_TOOL_OPTIONS"] = " ".join(java_opts)
    if env:
        e.update(env)
    t0 = time.time()
    p = subprocess.run(cmd, cwd=cwd, env=e, stdout=subprocess.PIPE, stderr=subprocess.STDOUT, text=True)
    wall = time.time() - t0
    shutil.rmtree(md, ignore_errors=True)
    if keep_out:
        with open(keep_out, "w") as f:
            f.write(p.stdout)
    if p.returncode == 124:
        raise ToolError(f"TLC timeout after {timeout}s on {module}/{cfg}")
    r = TlcResult(p.stdout, p.returncode, wall)
    if not r.ok and r.violated is None:
        raise ToolError(f"TLC failed on {module}/{os.path.basename(cfgp)} (rc={p.returncode}):\n" + p.stdout[-3000:])
    return r


def write_cfg(name, text):
    os.makedirs(WORK, exist_ok=True)
    p = os.path.join(WORK, name)
    with open(p, "w") as f:
        f.write(text)
    return p


# ------------------------------------------------------------------------------------------ edges -> behaviours
def edges_from_output(out):
    """Parse EDGE lines printed by a *Replay module. Returns list of dict edges in print order."""
    edges = []
    for line in out.splitlines():
        if not line.startswith('<<"EDGE", "'):
            continue
        js = line[len('<<"EDGE", "'):-3].replace('\\"', '"').replace("\\\\", "\\")
        edges.append(json.loads(js))
    return edges


def behaviours_from_edges(edges, max_paths=None):
    """Maximal root paths of the printed edge forest: one behaviour per id that is never a source.
    Each behaviour is the list of steps (edge dicts without s/d) from an Init edge."""
    parent = {}
    is_src = set()
    for e in edges:
        parent[e["d"]] = e
        is_src.add(e["s"])
    leaves = [e["d"] for e in edges if e["d"] not in is_src]
    out = []
    for leaf in leaves:
        path = []
        cur = leaf
        while cur in parent:
            e = parent[cur]
            path.append({k: v for k, v in e.items() if k not in ("s", "d")})
            cur = e["s"]
        path.reverse()
        out.append(path)
        if max_paths and len(out) >= max_paths:
            break
    return out


def write_behaviours(path, behaviours, header):
    tmp = f"{path}.{os.getpid()}.tmp"        # atomically: another check may be reading or producing the same cache entry
    with open(tmp, "w") as f:
        for i, b in enumerate(behaviours):
            f.write(json.dumps({"hdr": header, "n": i, "steps": b}) + "\n")
    os.replace(tmp, path)


def write_json_atomic(path, obj):
    tmp = f"{path}.{os.getpid()}.tmp"
    with open(tmp, "w") as f:
        json.dump(obj, f)
    os.replace(tmp, path)


# ------------------------------------------------------------------------------------------ harness
def cargo_lock():
    os.makedirs(WORK_BASE, exist_ok=True)
    f = open(os.path.join(WORK_BASE, "cargo.lock"), "w")
    fcntl.flock(f, fcntl.LOCK_EX)
    return f


def build_harness(bins=None):
    """(Re)build the harness against /repo's working tree (hooks on). Returns target/release dir."""
    lk = cargo_lock()
    try:
        cmd = ["cargo", "build", "--release", "--offline"]
        for b in bins or []:
            cmd += ["--bin", b]
        p = subprocess.run(cmd, cwd=HARNESS, stdout=subprocess.PIPE, stderr=subprocess.STDOUT, text=True)
        if p.returncode != 0:
            raise ToolError("harness build failed (the tree under /repo does not compile with hooks on):\n" + p.stdout[-4000:])
    finally:
        lk.close()
    return os.path.join(HARNESS, "target", "release")


def run(cmd, timeout=600, cwd=None, env=None, input=None):
    e = dict(os.environ)
    if env:
        e.update(env)
    t0 = time.time()
    try:
        p = subprocess.run(cmd, cwd=cwd, env=e, stdout=subprocess.PIPE, stderr=subprocess.PIPE, text=True,
                           timeout=timeout, input=input)
    except subprocess.TimeoutExpired:
        raise ToolError(f"timeout after {timeout}s: {' '.join(cmd)[:200]}")
    p.wall = time.time() - t0
    return p


# ------------------------------------------------------------------------------------------ findings / evidence
def known_findings():
    p = os.path.join(ROOT, "known_findings.json")
    if not os.path.exists(p):
        return {"findings": [], "fixed": []}
    return json.load(open(p))


CURRENT = None      # the report of the running check (bin/check finishes it if a later step fails as a tool)


class Report:
    """Collects coverage numbers, violations and known findings of one check run."""

    def __init__(self, pid, tier, seed, level):
        global CURRENT
        CURRENT = self
        self.pid, self.tier, self.seed, self.level = pid, tier, seed, level
        self.t0 = time.time()
        self.states = 0
        self.transitions = 0
        self.traces = 0
        self.evaluations = 0
        self.distinct = set()
        self.samples = []
        self.violations = []   # (signature, what, replay_path)
        self.known = []
        self.notes = []
        self.assumptions = []
        self.extra = {}
        self.rule = ""
        self.exhaustive = None

    def add_tlc(self, r, what):
        self.states += r.distinct
        self.transitions += r.generated
        self.notes.append(f"{what}: {r.distinct} distinct / {r.generated} generated, depth {r.depth}, {r.wall:.1f}s")

    def sample(self, s):
        if len(self.samples) < 3:
            self.samples.append(s)

    def violation(self, signature, what, replay_obj):
        """signature: '<class>' string identifying the failing input/history class."""
        kf = known_findings()
        for f in kf.get("findings", []):
            if f["property"] == self.pid and f["signature"] == signature:
                line = f"KNOWN-FINDING: property={self.pid} {f['what']}"
                if line not in self.known:
                    self.known.append(line)
                    print(line, flush=True)
                return False
        os.makedirs(REPLAYS, exist_ok=True)
        h = hashlib.sha1(json.dumps(replay_obj, sort_keys=True, default=str).encode()).hexdigest()[:10]
        path = os.path.join(REPLAYS, f"{self.pid}-{signature.replace('/', '_')}-{h}.json")
        with open(path, "w") as f:
            json.dump({"property": self.pid, "signature": signature, "what": what, "replay": replay_obj}, f, indent=1, default=str)
        self.violations.append((signature, what, path))
        print(f"VIOLATION property={self.pid} replay={path}", flush=True)
        log(f"  [{signature}] {what}")
        return True

    def finish(self):
        cov = {}
        if self.level == "model_checking":
            cov.update({"states": max(self.states, 0), "transitions": max(self.transitions, 0),
                        "traces_validated_against_impl": self.traces})
        cov["evaluations"] = self.evaluations
        cov["distinct_nontrivial"] = len(self.distinct)
        cov["rule"] = self.rule
        cov["samples"] = self.samples or ["(none)"]
        if self.exhaustive is not None:
            cov["exhaustive"] = self.exhaustive
        cov["notes"] = self.notes
        cov["known_findings"] = self.known
        cov.update(self.extra)
        ev = {"property_id": self.pid, "tier": self.tier, "seed": self.seed, "level": self.level,
              "coverage": cov, "assumptions": self.assumptions, "wall_s": round(time.time() - self.t0, 2),
              "violations": len(self.violations)}
        os.makedirs(EVID, exist_ok=True)
        with open(os.path.join(EVID, self.pid + ".json"), "w") as f:
            json.dump(ev, f, indent=1, default=str)
        return 1 if self.violations else 0


def prune_cache(cdir, prefix, keep=2):
    """Keep only the `keep` most recently used cache entries whose name starts with prefix (disk is limited)."""
    import glob
    fs = [f for f in glob.glob(os.path.join(cdir, prefix + "_*.ndjson")) if re.fullmatch(re.escape(prefix) + r"_[0-9a-f]{16}\.ndjson", os.path.basename(f))]
    fs.sort(key=lambda f: os.path.getmtime(f), reverse=True)
    for f in fs[keep:]:
        for g in (f, f + ".json", f[:-len(".ndjson")] + ".json"):
            try:
                os.remove(g)
            except OSError:
                pass
