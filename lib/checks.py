"""Per-property checks. Each function returns the process exit status (0 / 1) or raises
Drift / ToolError (exit 2) or ConformanceDrift (reported, exit 0)."""
import os, sys, json, hashlib, glob, time, re, subprocess
import cb
from cb import ToolError, Report, log

REGISTRY = {}


class Drift(Exception):
    """The model cannot be instantiated for this code (extraction outside the specification's family, hook mirror
    changed, refinement lost): the check cannot decide - exit 2."""


class ConformanceDrift(Drift):
    """A lock-step replay or a validated trace diverged from the specification although every observational predicate
    of the checked property held on every real execution (the replay continues in free mode, the random schedules are
    all run). Reported (`SPEC-DRIFT` line, evidence note), not a verdict: exit 0."""


def register(pid):
    def deco(f):
        REGISTRY[pid] = f
        return f
    return deco


def replay(pid, path):
    """Re-execute a recorded violation replay."""
    obj = json.load(open(path))
    import segchecks
    return segchecks.replay_file(pid, obj)


import segchecks  # noqa: E402  (registers C02 C03 C04 C11 C18)
for _m in ("clientchecks", "daemonchecks", "filechecks", "e2echecks", "threadchecks"):
    try:
        __import__(_m)
    except ModuleNotFoundError as e:
        if e.name != _m:
            raise
